/*
 * footwin.c - cut a valgrind/lackey --trace-mem=yes log (stdin) at the marker
 * functions of harness/drv.c and print, per marker-delimited window (= one
 * public library call), the number of records and a 128-bit digest of the
 * complete sequence of records: every instruction address executed and every
 * load/store/modify address and size, in order.
 *
 *   usage: footwin <hex addr of drv_mark_begin> <hex addr of drv_mark_end>
 */
#include <stdio.h>
#include <stdlib.h>
#include <string.h>
#include <stdint.h>

int main(int argc, char **argv)
{
    if (argc < 3) return 2;
    uint64_t beg = strtoull(argv[1], NULL, 16), end = strtoull(argv[2], NULL, 16);
    static char line[256];
    int inside = 0;
    long idx = 0, n = 0, nstores = 0;
    uint64_t h1 = 1469598103934665603ULL, h2 = 0x9E3779B97F4A7C15ULL;
    while (fgets(line, sizeof line, stdin)) {
        if (line[0] == 'I') {
            uint64_t a = strtoull(line + 3, NULL, 16);
            if (!inside && a == beg) { inside = 1; n = 0; nstores = 0; h1 = 1469598103934665603ULL; h2 = 0x9E3779B97F4A7C15ULL; continue; }
            if (inside && a == end) { printf("%ld %ld %ld %016llx%016llx\n", idx++, n, nstores, (unsigned long long)h1, (unsigned long long)h2); inside = 0; continue; }
        } else if (line[0] != ' ') {
            continue;   /* valgrind banner lines */
        }
        if (inside) {
            for (const char *p = line; *p && *p != '\n'; p++) {
                h1 = (h1 ^ (uint8_t)*p) * 1099511628211ULL;
                h2 = (h2 + (uint8_t)*p) * 0xD6E8FEB86659FD93ULL; h2 ^= h2 >> 29;
            }
            h1 = (h1 ^ 0xFF) * 1099511628211ULL;
            n++;
            if (line[1] == 'S' || line[1] == 'M') nstores++;
        }
    }
    return 0;
}
