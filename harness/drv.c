/*
 * drv.c - scenario executor for the skinny-c conformance harness.
 *
 * Reads a scenario (one abstract API call per line, "op key=value ...", all
 * concrete argument bytes in hex) and performs the calls on the real library,
 * printing one JSON object per call (NDJSON): the arguments as given, the
 * return value, output bytes, the projected public state of the object and
 * the allocator activity of the call.  No pointer, address, time or other
 * run-dependent value is ever printed, so a trace is a deterministic function
 * of the scenario file and of the library under test.
 *
 * All randomness lives in the scenario generator (Python); this program has
 * none.  Every pointer argument is placed in a guarded arena (PROT_NONE pages
 * on both sides) at a placement chosen by the scenario, every arena is
 * compared with a snapshot after the call (writes outside the output extent),
 * calloc/free of the library are wrapped (--wrap) for fault injection,
 * ownership tracking, content inspection at free and use-after-free traps.
 */
#define _GNU_SOURCE
#include <stdio.h>
#include <stdlib.h>
#include <string.h>
#include <stdint.h>
#include <signal.h>
#include <setjmp.h>
#include <unistd.h>
#include <sys/mman.h>
#include <cpuid.h>
#include <pthread.h>
#include <ucontext.h>
#include <sys/syscall.h>
#include <asm/prctl.h>

#include "skinny128-cipher.h"
#include "skinny64-cipher.h"
#include "mantis-cipher.h"
#include "skinny128-parallel.h"
#include "skinny64-parallel.h"
#include "mantis-parallel.h"
#include "skinny128-ctr-internal.h"
#include "skinny64-ctr-internal.h"
#include "mantis-ctr-internal.h"

#ifdef SKINNY_C_VERIF
extern int _skinny_verif_backend_cap;
#endif
int _skinny_has_vec128(void);
int _skinny_has_vec256(void);

/* ------------------------------------------------------------------ */
/* Allocator wrap                                                      */

#define PAGE 4096u
#define MAXBLK 4096

typedef struct {
    uint8_t *map;      /* start of mapping (first page of data) */
    size_t maplen;     /* data pages length (excluding trailing guard) */
    uint8_t *ptr;      /* pointer handed out */
    size_t size;       /* requested size */
    int live;
    unsigned born;     /* number of the library call that allocated it */
} Blk;

static __thread Blk blks[MAXBLK];
static __thread int nblk;
static __thread int in_lib;           /* only library calls are tracked */
static __thread int fail_next;        /* fail the n-th calloc made by the library in this call (0: none) */
static __thread int fail_hit;         /* an injected failure was actually delivered */
static __thread int c_na, c_nf, c_nz, c_nzo, c_badfree, c_fz;   /* per-call counters */
static __thread unsigned call_seq;   /* library calls made so far */
static __thread int live_blocks;

void *__real_calloc(size_t, size_t);
void *__real_malloc(size_t);
void *__real_realloc(void *, size_t);
void *__real_aligned_alloc(size_t, size_t);
int __real_posix_memalign(void **, size_t, size_t);
void __real_free(void *);

/* one allocation request of the library, whichever function it came through:
   counted, possibly refused (fault injection), served flush against a guard
   page; zero != 0: zero-filled (calloc), else filled with 0xA5 - what malloc
   hands out is whatever a previous owner left there */
static void *lib_alloc(size_t size, size_t align, int zero)
{
    c_na++;
    if (fail_next && c_na == fail_next) {
        fail_next = 0;
        fail_hit = 1;
        return NULL;
    }
    if (align < 16) align = 16;
    size_t rounded = (size + align - 1) & ~(align - 1);
    size_t pages = (rounded + PAGE - 1) / PAGE;
    if (pages == 0) pages = 1;
    if (nblk >= MAXBLK) { fprintf(stderr, "drv: too many blocks\n"); _exit(3); }
    uint8_t *m = mmap(NULL, (pages + 1) * PAGE, PROT_READ | PROT_WRITE,
                      MAP_PRIVATE | MAP_ANONYMOUS, -1, 0);
    if (m == MAP_FAILED) { perror("mmap"); _exit(3); }
    mprotect(m + pages * PAGE, PAGE, PROT_NONE);
    Blk *b = &blks[nblk++];
    b->map = m; b->maplen = pages * PAGE;
    b->ptr = m + pages * PAGE - rounded;    /* flush against the guard (up to the alignment) */
    b->size = size; b->live = 1; b->born = call_seq;
    /* slack before the block is poisoned: an underflow write shows at free */
    memset(m, 0xEE, (size_t)(b->ptr - m));
    if (!zero) memset(b->ptr, 0xA5, size);
    live_blocks++;
    return b->ptr;
}

void *__wrap_calloc(size_t n, size_t sz)
{
    if (!in_lib)
        return __real_calloc(n, sz);
    return lib_alloc(n * sz, 16, 1);
}

void *__wrap_malloc(size_t size)
{
    if (!in_lib)
        return __real_malloc(size);
    return lib_alloc(size, 16, 0);
}

void *__wrap_aligned_alloc(size_t align, size_t size)
{
    if (!in_lib)
        return __real_aligned_alloc(align, size);
    return lib_alloc(size, align, 0);
}

int __wrap_posix_memalign(void **out, size_t align, size_t size)
{
    void *p;
    if (!in_lib)
        return __real_posix_memalign(out, align, size);
    p = lib_alloc(size, align, 0);
    if (!p) return 12;   /* ENOMEM */
    *out = p;
    return 0;
}

void __wrap_free(void *p);
void *__wrap_realloc(void *old, size_t size)
{
    if (!in_lib)
        return __real_realloc(old, size);
    void *p = lib_alloc(size, 16, 0);
    if (p && old) {
        for (int i = 0; i < nblk; i++)
            if (blks[i].ptr == old && blks[i].live) {
                memcpy(p, old, blks[i].size < size ? blks[i].size : size);
                break;
            }
        __wrap_free(old);
    }
    return p;
}

void __wrap_free(void *p)
{
    if (!in_lib) { __real_free(p); return; }
    if (!p) return;
    c_nf++;
    for (int i = 0; i < nblk; i++) {
        if (blks[i].ptr == p && blks[i].live) {
            Blk *b = &blks[i];
            /* contents at release: every byte of the block as allocated */
            size_t nz = 0;
            for (size_t j = 0; j < b->size; j++) nz += (b->ptr[j] != 0);
            c_nz += (int)nz;
            /* a block that outlived the call that allocated it is object state */
            if (b->born != call_seq) c_nzo += (int)nz;
            /* slack must be untouched */
            for (uint8_t *q = b->map; q < b->ptr; q++) if (*q != 0xEE) c_fz++;
            for (uint8_t *q = b->ptr + b->size; q < b->map + b->maplen; q++) if (*q != 0) c_fz++;
            b->live = 0;
            live_blocks--;
            /* quarantine: any later access traps */
            mprotect(b->map, b->maplen, PROT_NONE);
            return;
        }
    }
    c_badfree++;    /* not a live block of ours: double free or wild pointer */
}

static void release_all_blocks(void)
{
    for (int i = 0; i < nblk; i++)
        munmap(blks[i].map, blks[i].maplen + PAGE);
    nblk = 0;
    live_blocks = 0;
}

/* ------------------------------------------------------------------ */
/* Guarded arenas                                                      */

static int fast_mode;         /* C08: skip arena snapshots (less noise in address traces) */
#define NARENA 5
#define ADATA (8 * PAGE)
enum { A_IN = 0, A_OUT = 1, A_KEY = 2, A_AUX = 3, A_TW = 4 };
static __thread uint8_t *arena[NARENA];
static __thread uint8_t *snap[NARENA];

static void arenas_init(void)
{
    for (int i = 0; i < NARENA; i++) {
        uint8_t *m = mmap(NULL, ADATA + 2 * PAGE, PROT_READ | PROT_WRITE,
                          MAP_PRIVATE | MAP_ANONYMOUS, -1, 0);
        if (m == MAP_FAILED) { perror("mmap"); _exit(3); }
        mprotect(m, PAGE, PROT_NONE);
        mprotect(m + PAGE + ADATA, PAGE, PROT_NONE);
        arena[i] = m + PAGE;
        snap[i] = malloc(ADATA);
    }
}

static void arenas_fill(void)
{
    for (int i = 0; i < NARENA; i++)
        memset(arena[i], 0xC5, ADATA);
}

/* placement: 'e' flush against end guard, 's' flush against start guard,
   'm' middle at 2048 + align */
static uint8_t *place(int a, size_t len, char mode, unsigned align)
{
    if (len > ADATA - 4096) { fprintf(stderr, "drv: buffer too large\n"); _exit(3); }
    switch (mode) {
    case 's': return arena[a];
    case 'm': return arena[a] + 2048 + align;
    default:  return arena[a] + ADATA - len;
    }
}

static void arenas_snapshot(void)
{
    if (fast_mode) return;
    for (int i = 0; i < NARENA; i++)
        memcpy(snap[i], arena[i], ADATA);
}

/* number of bytes that changed outside [out, out+outlen) */
static long arenas_stray(const uint8_t *out, size_t outlen)
{
    long n = 0;
    if (fast_mode) return 0;
    for (int i = 0; i < NARENA; i++) {
        for (size_t j = 0; j < ADATA; j++) {
            const uint8_t *p = arena[i] + j;
            if (out && p >= out && p < out + outlen) continue;
            if (*p != snap[i][j]) n++;
        }
    }
    return n;
}

/* ------------------------------------------------------------------ */
/* Stack painting and register garbage                                 */

static __thread int paint = -1;       /* -1: off, else byte value; 256: ramp */

static void __attribute__((noinline)) paint_stack(void)
{
    volatile uint8_t buf[24 * 1024];
    if (paint < 0) return;
    for (size_t i = 0; i < sizeof(buf); i++)
        buf[i] = (paint == 256) ? (uint8_t)(i * 37 + 11) : (uint8_t)paint;
    __asm__ volatile("" ::: "memory");
}

/* call fn(arg) with all caller-saved argument/scratch registers = g */
__attribute__((naked)) static int call1_garbage(void *fn, void *arg, unsigned long g)
{
    __asm__ volatile(
        "mov %rdi, %rax\n\t"
        "mov %rsi, %rdi\n\t"
        "mov %rdx, %rcx\n\t"
        "mov %rdx, %rsi\n\t"
        "mov %rdx, %r8\n\t"
        "mov %rdx, %r9\n\t"
        "mov %rdx, %r10\n\t"
        "mov %rdx, %r11\n\t"
        "jmp *%rax\n\t");
}

/* ------------------------------------------------------------------ */
/* Command parsing                                                     */

#define MAXTOK 32
static __thread char *tok_k[MAXTOK], *tok_v[MAXTOK];
static __thread int ntok;
static __thread char opname[64];

static const char *arg(const char *k)
{
    for (int i = 0; i < ntok; i++)
        if (!strcmp(tok_k[i], k)) return tok_v[i];
    return NULL;
}
static long argi(const char *k, long def)
{
    const char *v = arg(k);
    return v ? strtol(v, NULL, 0) : def;
}
static unsigned long argu(const char *k, unsigned long def)
{
    const char *v = arg(k);
    return v ? strtoul(v, NULL, 0) : def;
}
static int is_null(const char *k)
{
    const char *v = arg(k);
    return v && !strcmp(v, "null");
}
/* hex -> bytes; returns length */
static size_t hexbytes(const char *v, uint8_t *out, size_t max)
{
    size_t n = 0;
    if (!v || !strcmp(v, "null") || !strcmp(v, "-")) return 0;
    while (v[0] && v[1] && n < max) {
        unsigned x;
        sscanf(v, "%2x", &x);
        out[n++] = (uint8_t)x;
        v += 2;
    }
    return n;
}

/* ------------------------------------------------------------------ */
/* JSON output                                                         */

static __thread char *jb;
static __thread size_t jcap, jlen;
static void jput(const char *s)
{
    size_t n = strlen(s);
    /* one large buffer up front: the allocation pattern of the harness must not depend
       on the data (the address traces of C08 are compared across secret values) */
    if (!jb) { jcap = 8u << 20; jb = malloc(jcap); }
    if (jlen + n + 1 > jcap) { jcap = (jcap + n) * 2 + 1024; jb = realloc(jb, jcap); }
    memcpy(jb + jlen, s, n + 1);
    jlen += n;
}
static __thread int jfirst;
static void jbegin(const char *e) { jlen = 0; jput("{\"e\":\""); jput(e); jput("\""); jfirst = 0; }
static void jkey(const char *k) { jput(",\""); jput(k); jput("\":"); }
static void jint(const char *k, long v) { char t[32]; jkey(k); snprintf(t, sizeof t, "%ld", v); jput(t); }
static void jstr(const char *k, const char *v) { jkey(k); jput("\""); jput(v); jput("\""); }
static void jbytes(const char *k, const uint8_t *p, size_t n)
{
    char t[8];
    jkey(k); jput("[");
    for (size_t i = 0; i < n; i++) { snprintf(t, sizeof t, i ? ",%u" : "%u", p[i]); jput(t); }
    jput("]");
}
/* bytes or the string "null" */
static void jbytes_or_null(const char *k, const uint8_t *p, size_t n, int isnull)
{
    char t[64];
    jbytes(k, p, isnull ? 0 : n);
    snprintf(t, sizeof t, "%s_null", k);
    jint(t, isnull);
}
static void jlen_capped(const char *k, unsigned long v)
{
    /* TLC integers are 32-bit signed: anything >= 2^31-1 is logged as 2^31-1,
       which is far outside every accepted range (classification preserved) */
    jint(k, v > 2147483647ul ? 2147483647l : (long)v);
}
static __thread FILE *outf;
static void jend(void) { jput("}\n"); fputs(jb, outf ? outf : stdout); fflush(outf ? outf : stdout); }

/* ------------------------------------------------------------------ */
/* Objects                                                             */

#define NOBJ 8
static __thread Skinny128Key_t k128[NOBJ];
static __thread Skinny64Key_t k64[NOBJ];
static __thread Skinny128TweakedKey_t t128[NOBJ];
static __thread Skinny64TweakedKey_t t64[NOBJ];
static __thread MantisKey_t mk[NOBJ];
static __thread Skinny128CTR_t c128[NOBJ];
static __thread Skinny64CTR_t c64[NOBJ];
static __thread MantisCTR_t cm[NOBJ];
static __thread Skinny128ParallelECB_t p128[NOBJ];
static __thread Skinny64ParallelECB_t p64[NOBJ];
static __thread MantisParallelECB_t pm[NOBJ];

static __thread int objs_masked;
static void objects_zero(void)
{
    objs_masked = 0;
    memset(k128, 0, sizeof k128); memset(k64, 0, sizeof k64);
    memset(t128, 0, sizeof t128); memset(t64, 0, sizeof t64);
    memset(mk, 0, sizeof mk);
    memset(c128, 0, sizeof c128); memset(c64, 0, sizeof c64); memset(cm, 0, sizeof cm);
    memset(p128, 0, sizeof p128); memset(p64, 0, sizeof p64); memset(pm, 0, sizeof pm);
}


/* Writes to caller objects other than the one passed to the call (a handle or
   key schedule overrun lands in its neighbours): all object arrays are
   compared with a snapshot taken before the call, except the target slot */
typedef struct { uint8_t *base; size_t elem, total; } ObjArr;
#define NOBJARR 11
static void obj_arrays(ObjArr *a)
{
#define OA(i, arr) a[i].base = (uint8_t *)(arr); a[i].elem = sizeof((arr)[0]); a[i].total = sizeof(arr)
    OA(0, k128); OA(1, k64); OA(2, t128); OA(3, t64); OA(4, mk);
    OA(5, c128); OA(6, c64); OA(7, cm); OA(8, p128); OA(9, p64); OA(10, pm);
#undef OA
}
static __thread uint8_t *objsnap;
static void objects_snapshot(void)
{
    ObjArr a[NOBJARR]; size_t off = 0, tot = 0;
    obj_arrays(a);
    for (int i = 0; i < NOBJARR; i++) tot += a[i].total;
    if (!objsnap) objsnap = __real_calloc(1, tot);
    for (int i = 0; i < NOBJARR; i++) { memcpy(objsnap + off, a[i].base, a[i].total); off += a[i].total; }
}
static int target_array(void);
/* while the library runs, every slot other than the target is xored with 0xA5, so
   that an overrun shows even where the neighbours hold the same bytes it writes
   (all-zero handles next to a cleanse) */
static void objects_mask(void)
{
    ObjArr a[NOBJARR];
    int ta = target_array(), to = is_null("o") ? -1 : (int)argi("o", 0);
    obj_arrays(a);
    for (int i = 0; i < NOBJARR; i++)
        for (size_t j = 0; j < a[i].total; j++) {
            if (i == ta && to >= 0 && j / a[i].elem == (size_t)to) continue;
            a[i].base[j] ^= 0xA5;
        }
    objs_masked = !objs_masked;
}
static int target_array(void)
{
    const char *k = arg("k");
    int is128 = k && !strcmp(k, "s128"), is64 = k && !strcmp(k, "s64");
    if (!strncmp(opname, "ks_", 3)) {
        int tw = (int)argi("t", 0) || !strcmp(opname, "ks_set_tweaked_key") || !strcmp(opname, "ks_set_tweak");
        return is128 ? (tw ? 2 : 0) : (tw ? 3 : 1);
    }
    if (!strncmp(opname, "mk_", 3)) return 4;
    if (!strncmp(opname, "ctr_", 4)) return is128 ? 5 : is64 ? 6 : 7;
    if (!strncmp(opname, "par_", 4)) return is128 ? 8 : is64 ? 9 : 10;
    return -1;
}
static long objects_stray(void)
{
    ObjArr a[NOBJARR]; size_t off = 0; long n = 0;
    int ta = target_array(), to = is_null("o") ? -1 : (int)argi("o", 0);
    if (!objsnap) return 0;
    obj_arrays(a);
    for (int i = 0; i < NOBJARR; i++) {
        for (size_t j = 0; j < a[i].total; j++) {
            if (i == ta && to >= 0 && j / a[i].elem == (size_t)to) continue;
            if (a[i].base[j] != objsnap[off + j]) n++;
        }
        off += a[i].total;
    }
    return n;
}

/* Objects shared read-only between threads (C18): a copy of the main thread's
   objects number 7, placed in a page that is made PROT_READ before the threads
   start; the parallel objects' heap contexts are made read-only as well */
typedef struct {
    Skinny128Key_t k128; Skinny64Key_t k64; MantisKey_t mk;
    Skinny128ParallelECB_t p128; Skinny64ParallelECB_t p64; MantisParallelECB_t pm;
} Shared;
static Shared *shared;
static int nthreads_mode;

/* kind: "s128" | "s64" | "mantis" */
static int kind_bs(const char *k) { return !strcmp(k, "s128") ? 16 : 8; }

static void log_ks128(const Skinny128Key_t *ks)
{
    unsigned r = ks->rounds;
    jint("rounds", r);
    if (r > SKINNY128_MAX_ROUNDS) r = SKINNY128_MAX_ROUNDS;
    jbytes("sched", (const uint8_t *)ks->schedule, r * 8u);
}
static void log_ks64(const Skinny64Key_t *ks)
{
    unsigned r = ks->rounds;
    jint("rounds", r);
    if (r > SKINNY64_MAX_ROUNDS) r = SKINNY64_MAX_ROUNDS;
    jbytes("sched", (const uint8_t *)ks->schedule, r * 4u);
}
static void log_mk(const MantisKey_t *ks)
{
    jint("rounds", ks->rounds);
    jbytes("k0", (const uint8_t *)&ks->k0, 8);
    jbytes("k0p", (const uint8_t *)&ks->k0prime, 8);
    jbytes("k1", (const uint8_t *)&ks->k1, 8);
    jbytes("tw", (const uint8_t *)&ks->tweak, 8);
}

/* ------------------------------------------------------------------ */
/* Crash recovery                                                      */

static __thread sigjmp_buf crash_jmp;
static __thread volatile int crash_armed;

/* CPU models (C13): with CPUID faulting switched on (arch_prctl ARCH_SET_CPUID,
   Linux on Intel), every CPUID instruction of the process traps and is answered
   here from a table, so the library's REAL probe code runs on any x86 model:
     leaf 0            eax = maxleaf, "GenuineIntel"
     leaf 1            edx bit 26 = sse2, ecx bit 27 = osxsave, bit 28 = avx
     leaf 7 sub-leaf 0 ebx bit 5 = avx2; any other sub-leaf: zeros
     leaf > maxleaf    the data of the highest basic leaf (Intel): every register = `top`
     noise = 1         all bits the probes must not look at are SET (else clear) */
static struct { int on; unsigned maxleaf, sse2, osxsave, avx2, top, noise; } cpum;

static int cpuid_emulate(ucontext_t *uc)
{
    greg_t *g = uc->uc_mcontext.gregs;
    const uint8_t *ip = (const uint8_t *)g[REG_RIP];
    unsigned leaf, sub, a = 0, b = 0, c = 0, d = 0, fill;
    if (!cpum.on || ip[0] != 0x0F || ip[1] != 0xA2) return 0;
    leaf = (unsigned)g[REG_RAX]; sub = (unsigned)g[REG_RCX];
    fill = cpum.noise ? 0xFFFFFFFFu : 0;
    if (leaf >= 0x80000000u) {
        a = (leaf == 0x80000000u) ? 0x80000000u : 0;
    } else if (leaf == 0) {
        a = cpum.maxleaf; b = 0x756e6547; d = 0x49656e69; c = 0x6c65746e;
    } else if (leaf > cpum.maxleaf) {
        a = b = c = d = cpum.top ? 0xFFFFFFFFu : 0;
    } else if (leaf == 1) {
        a = 0x000306A9;
        d = (fill & ~(1u << 26)) | (cpum.sse2 << 26);
        c = (fill & ~((1u << 27) | (1u << 28) | (1u << 26))) | (cpum.osxsave << 27) | (cpum.osxsave << 26) | (cpum.avx2 << 28);
    } else if (leaf == 7) {
        if (sub == 0) b = (fill & ~(1u << 5)) | (cpum.avx2 << 5);
    }
    g[REG_RAX] = a; g[REG_RBX] = b; g[REG_RCX] = c; g[REG_RDX] = d;
    g[REG_RIP] += 2;
    return 1;
}

static void on_crash(int sig, siginfo_t *si, void *ucv)
{
    (void)si;
    if (sig == SIGSEGV && cpuid_emulate((ucontext_t *)ucv)) return;
    if (crash_armed) siglongjmp(crash_jmp, sig);
    _exit(128 + sig);
}

/* markers that delimit the library call in an instruction/address trace (C08) */
void __attribute__((noinline)) drv_mark_begin(void) { __asm__ volatile("" ::: "memory"); }
void __attribute__((noinline)) drv_mark_end(void) { __asm__ volatile("" ::: "memory"); }

/* per-call prologue/epilogue */
static void call_begin(void)
{
    c_na = c_nf = c_nz = c_nzo = c_badfree = c_fz = 0;
    call_seq++;
    fail_hit = 0;
    arenas_snapshot();
    if (!fast_mode) { objects_snapshot(); objects_mask(); }
    paint_stack();
    in_lib = 1;
    drv_mark_begin();
}
static void call_end(void)
{
    drv_mark_end();
    in_lib = 0;
    if (objs_masked) objects_mask();
}
static void log_alloc(const uint8_t *out, size_t outlen)
{
    jint("na", c_na); jint("nf", c_nf); jint("nz", c_nz); jint("nzo", c_nzo);
    jint("badfree", c_badfree + c_fz); jint("lv", live_blocks);
    jint("stray", arenas_stray(out, outlen) + (fast_mode ? 0 : objects_stray()));
}

static char pl_mode(const char *name)
{
    const char *v = arg(name);
    return v ? v[0] : 'e';
}
static unsigned pl_align(const char *name)
{
    const char *v = arg(name);
    return (v && v[0] == 'm') ? (unsigned)strtoul(v + 1, NULL, 10) : 0;
}

/* Put bytes into an arena according to the placement option <opt> */
static uint8_t *put(int a, const char *opt, const uint8_t *src, size_t len, size_t reserve)
{
    uint8_t *p = place(a, reserve ? reserve : len, pl_mode(opt), pl_align(opt));
    if (len) memcpy(p, src, len);
    return p;
}

static __thread uint8_t kb[8192], ib[ADATA], ob[ADATA], tb[ADATA];

static const char *be_name_ctr(const char *kind, const void *vt)
{
    if (!vt) return "none";
    if (!strcmp(kind, "s128")) {
        if (vt == (const void *)&_skinny128_ctr_vec128) return "v128";
        if (vt == (const void *)&_skinny128_ctr_vec256) return "v256";
        return "gen";
    } else if (!strcmp(kind, "s64")) {
        if (vt == (const void *)&_skinny64_ctr_vec128) return "v128";
        return "gen";
    } else {
        if (vt == (const void *)&_mantis_ctr_vec128) return "v128";
        return "gen";
    }
}

static void set_cap(void)
{
#ifdef SKINNY_C_VERIF
    const char *v = arg("cap");
    if (v) _skinny_verif_backend_cap = (int)strtol(v, NULL, 10);
#endif
}

/* reduced rounds: temporarily overwrite the public rounds field */
#define WITH_RR(fieldptr, body) do { \
        long rr_ = argi("rr", -1); unsigned save_ = *(fieldptr); \
        if (rr_ >= 0) *(fieldptr) = (unsigned)rr_; \
        body; \
        if (rr_ >= 0) *(fieldptr) = save_; \
    } while (0)

static void echo_common(void)
{
    const char *k = arg("k"), *o = arg("o");
    if (k) jstr("k", k);
    if (o) { if (!strcmp(o, "null")) jint("o", -1); else jint("o", atol(o)); }
    if (arg("sh")) jint("sh", argi("sh", 0));
}

/* ------------------------------------------------------------------ */

static void do_ks(void)
{
    const char *kind = arg("k");
    int is128 = !strcmp(kind, "s128");
    int bs = is128 ? 16 : 8;
    int onull = is_null("o");
    int o = onull ? 0 : (int)argi("o", 0);
    int tweaked = (int)argi("t", 0);   /* object family: 0 plain, 1 tweaked */
    if (!strcmp(opname, "ks_set_tweaked_key") || !strcmp(opname, "ks_set_tweak")) tweaked = 1;
    int ret = -1;

    jbegin(opname); echo_common(); jint("t", tweaked);

    if (!strcmp(opname, "ks_set_key") || !strcmp(opname, "ks_set_tweaked_key")) {
        size_t n = hexbytes(arg("key"), kb, sizeof kb);
        unsigned long len = argu("len", n);
        int knull = is_null("key");
        uint8_t *kp = knull ? NULL : put(A_KEY, "pk", kb, n, 0);
        jbytes_or_null("key", kb, n, knull); jlen_capped("len", len);
        call_begin();
        if (!strcmp(opname, "ks_set_key")) {
            if (is128) ret = skinny128_set_key(onull ? NULL : (tweaked ? &t128[o].ks : &k128[o]), kp, (unsigned)len);
            else       ret = skinny64_set_key(onull ? NULL : (tweaked ? &t64[o].ks : &k64[o]), kp, (unsigned)len);
        } else {
            if (is128) ret = skinny128_set_tweaked_key(onull ? NULL : &t128[o], kp, (unsigned)len);
            else       ret = skinny64_set_tweaked_key(onull ? NULL : &t64[o], kp, (unsigned)len);
        }
        call_end();
        jint("ret", ret);
    } else if (!strcmp(opname, "ks_set_tweak")) {
        size_t n = hexbytes(arg("tweak"), kb, sizeof kb);
        unsigned long len = argu("len", n);
        int tnull = is_null("tweak");
        uint8_t *tp = tnull ? NULL : put(A_AUX, "pt", kb, n, 0);
        if (arg("selfoff") && !onull) {
            /* the new tweak is read from inside the object's own (public) tweak field:
               "new tweak = bytes self..self+len-1 of the tweak in force" */
            size_t off = (size_t)argu("selfoff", 0);
            tp = (is128 ? (uint8_t *)t128[o].tweak : (uint8_t *)t64[o].tweak) + off;
            n = (size_t)len;
            memcpy(kb, tp, n);        /* what the caller passes, as bytes, for the trace */
            tnull = 0;
        }
        jbytes_or_null("tweak", kb, n, tnull); jlen_capped("len", len);
        call_begin();
        if (is128) ret = skinny128_set_tweak(onull ? NULL : &t128[o], tp, (unsigned)len);
        else       ret = skinny64_set_tweak(onull ? NULL : &t64[o], tp, (unsigned)len);
        call_end();
        jint("ret", ret);
    } else { /* ks_enc / ks_dec */
        size_t n = hexbytes(arg("in"), ib, sizeof ib);
        int enc = !strcmp(opname, "ks_enc");
        const char *ov = arg("ov");     /* overlap offset of out relative to in */
        uint8_t *ip, *op;
        if (ov) {
            long off = strtol(ov, NULL, 10);
            ip = arena[A_IN] + 4096 + pl_align("pi");
            memcpy(ip, ib, n);
            op = ip + off;
            jint("ov", off);
        } else {
            ip = put(A_IN, "pi", ib, n, 0);
            op = place(A_OUT, (size_t)bs, pl_mode("po"), pl_align("po"));
        }
        jbytes("in", ib, n);
        if (arg("rr")) jint("rr", argi("rr", 0));
        call_begin();
        if (is128) {
            Skinny128Key_t *ks = argi("sh", 0) ? &shared->k128 : tweaked ? &t128[o].ks : &k128[o];
            WITH_RR(&ks->rounds, { if (enc) skinny128_ecb_encrypt(op, ip, ks); else skinny128_ecb_decrypt(op, ip, ks); });
        } else {
            Skinny64Key_t *ks = argi("sh", 0) ? &shared->k64 : tweaked ? &t64[o].ks : &k64[o];
            WITH_RR(&ks->rounds, { if (enc) skinny64_ecb_encrypt(op, ip, ks); else skinny64_ecb_decrypt(op, ip, ks); });
        }
        call_end();
        jbytes("out", op, (size_t)bs);
        log_alloc(op, (size_t)bs);
        jend();
        return;
    }
    /* projected state after the call */
    if (!onull) {
        if (is128) { log_ks128(tweaked ? &t128[o].ks : &k128[o]); if (tweaked) jbytes("tw", t128[o].tweak, 16); }
        else       { log_ks64(tweaked ? &t64[o].ks : &k64[o]);   if (tweaked) jbytes("tw", t64[o].tweak, 8); }
    }
    log_alloc(NULL, 0);
    jend();
}

static void do_mk(void)
{
    int onull = is_null("o");
    int o = onull ? 0 : (int)argi("o", 0);
    int ret = -1;
    jbegin(opname); echo_common();
    if (!strcmp(opname, "mk_set_key")) {
        size_t n = hexbytes(arg("key"), kb, sizeof kb);
        unsigned long len = argu("len", n);
        unsigned long rounds = argu("rounds", 8);
        int mode = (int)argi("mode", 1);
        int knull = is_null("key");
        uint8_t *kp = knull ? NULL : put(A_KEY, "pk", kb, n, 0);
        jbytes_or_null("key", kb, n, knull); jlen_capped("len", len);
        jlen_capped("nr", rounds); jint("mode", mode);
        call_begin();
        ret = mantis_set_key(onull ? NULL : &mk[o], kp, (unsigned)len, (unsigned)rounds, mode);
        call_end();
        jint("ret", ret);
    } else if (!strcmp(opname, "mk_set_tweak")) {
        size_t n = hexbytes(arg("tweak"), kb, sizeof kb);
        unsigned long len = argu("len", n);
        int tnull = is_null("tweak");
        uint8_t *tp = tnull ? NULL : put(A_AUX, "pt", kb, n, 0);
        jbytes_or_null("tweak", kb, n, tnull); jlen_capped("len", len);
        call_begin();
        ret = mantis_set_tweak(onull ? NULL : &mk[o], tp, (unsigned)len);
        call_end();
        jint("ret", ret);
    } else if (!strcmp(opname, "mk_swap")) {
        call_begin();
        mantis_swap_modes(&mk[o]);
        call_end();
    } else { /* mk_crypt, mk_crypt_tw */
        size_t n = hexbytes(arg("in"), ib, sizeof ib);
        int tw = !strcmp(opname, "mk_crypt_tw");
        const char *ov = arg("ov");
        uint8_t *ip, *op, *tp = NULL;
        if (ov) {
            long off = strtol(ov, NULL, 10);
            ip = arena[A_IN] + 4096 + pl_align("pi");
            memcpy(ip, ib, n);
            op = ip + off;
            jint("ov", off);
        } else {
            ip = put(A_IN, "pi", ib, n, 0);
            op = place(A_OUT, 8, pl_mode("po"), pl_align("po"));
        }
        jbytes("in", ib, n);
        if (tw) {
            size_t tn = hexbytes(arg("tweak"), kb, sizeof kb);
            tp = put(A_AUX, "pt", kb, tn, 0);
            jbytes("tweak", kb, tn);
        }
        if (arg("rr")) jint("rr", argi("rr", 0));
        call_begin();
        MantisKey_t *mp = argi("sh", 0) ? &shared->mk : &mk[o];
        WITH_RR(&mp->rounds, { if (tw) mantis_ecb_crypt_tweaked(op, ip, tp, mp); else mantis_ecb_crypt(op, ip, mp); });
        call_end();
        jbytes("out", op, 8);
        log_alloc(op, 8);
        jend();
        return;
    }
    if (!onull) log_mk(&mk[o]);
    log_alloc(NULL, 0);
    jend();
}

/* pointer to the "rounds" field at the start of a heap context, if the
   layout assumption (key schedule first) has been verified by the scenario */
static unsigned *ctx_rounds(const char *kind, void *ctx)
{
    if (!strcmp(kind, "s128")) return &((Skinny128Key_t *)ctx)->rounds;
    if (!strcmp(kind, "s64")) return &((Skinny64Key_t *)ctx)->rounds;
    return &((MantisKey_t *)ctx)->rounds;
}

static void do_ctr(void)
{
    const char *kind = arg("k");
    int is128 = !strcmp(kind, "s128"), is64 = !strcmp(kind, "s64");
    int bs = kind_bs(kind);
    int onull = is_null("o");
    int o = onull ? 0 : (int)argi("o", 0);
    int ret = -1;
    void *obj = onull ? NULL : (is128 ? (void *)&c128[o] : is64 ? (void *)&c64[o] : (void *)&cm[o]);
    const void **vtp = onull ? NULL : (is128 ? &c128[o].vtable : is64 ? &c64[o].vtable : &cm[o].vtable);
    void **ctxp = onull ? NULL : (is128 ? &c128[o].ctx : is64 ? &c64[o].ctx : &cm[o].ctx);

    jbegin(opname); echo_common();

    if (!strcmp(opname, "ctr_init")) {
        const char *pf = arg("prefill");
        if (pf && obj) {
            memset(obj, (int)strtol(pf, NULL, 0), sizeof(Skinny128CTR_t));
            jint("prefill", strtol(pf, NULL, 0));
        } else if (paint >= 0 && obj && ctxp && !*ctxp) {
            /* painting mode (C11): a handle that does not own a context holds arbitrary caller bytes */
            memset(obj, paint == 256 ? 0xC3 : paint, sizeof(Skinny128CTR_t));
        }
        set_cap();
        if (arg("cap")) jint("cap", argi("cap", 2));
        int fail = (int)argi("fail", 0);
        jint("fail", fail);
        unsigned long g = argu("garbage", 0);
        call_begin();
        fail_next = fail;
        if (arg("garbage")) {
            ret = call1_garbage(is128 ? (void *)skinny128_ctr_init : is64 ? (void *)skinny64_ctr_init : (void *)mantis_ctr_init, obj, g);
        } else {
            ret = is128 ? skinny128_ctr_init(obj) : is64 ? skinny64_ctr_init(obj) : mantis_ctr_init(obj);
        }
        fail_next = 0;
        call_end();
        jint("ret", ret);
        jint("failed", fail_hit);
        if (obj) {
            jstr("be", be_name_ctr(kind, *vtp));
            jint("ctxnull", *ctxp == NULL);
        }
    } else if (!strcmp(opname, "ctr_cleanup")) {
        call_begin();
        if (is128) skinny128_ctr_cleanup(obj); else if (is64) skinny64_ctr_cleanup(obj); else mantis_ctr_cleanup(obj);
        call_end();
        if (obj) { jint("vtnull", *vtp == NULL); jint("ctxnull", *ctxp == NULL); }
    } else if (!strcmp(opname, "ctr_set_key") || !strcmp(opname, "ctr_set_tweaked_key")) {
        size_t n = hexbytes(arg("key"), kb, sizeof kb);
        unsigned long len = argu("len", n);
        unsigned long rounds = argu("rounds", 8);
        int knull = is_null("key");
        uint8_t *kp = knull ? NULL : put(A_KEY, "pk", kb, n, 0);
        jbytes_or_null("key", kb, n, knull); jlen_capped("len", len);
        if (!is128 && !is64) jlen_capped("nr", rounds);
        call_begin();
        if (!strcmp(opname, "ctr_set_key")) {
            ret = is128 ? skinny128_ctr_set_key(obj, kp, (unsigned)len)
                : is64  ? skinny64_ctr_set_key(obj, kp, (unsigned)len)
                        : mantis_ctr_set_key(obj, kp, (unsigned)len, (unsigned)rounds);
        } else {
            ret = is128 ? skinny128_ctr_set_tweaked_key(obj, kp, (unsigned)len)
                        : skinny64_ctr_set_tweaked_key(obj, kp, (unsigned)len);
        }
        call_end();
        jint("ret", ret);
    } else if (!strcmp(opname, "ctr_set_tweak") || !strcmp(opname, "ctr_set_counter")) {
        int istw = !strcmp(opname, "ctr_set_tweak");
        const char *an = istw ? "tweak" : "ctr";
        size_t n = hexbytes(arg(an), kb, sizeof kb);
        unsigned long len = argu("len", n);
        int anull = is_null(an);
        uint8_t *ap = anull ? NULL : put(A_AUX, "pt", kb, n, 0);
        jbytes_or_null(an, kb, n, anull); jlen_capped("len", len);
        call_begin();
        if (istw)
            ret = is128 ? skinny128_ctr_set_tweak(obj, ap, (unsigned)len)
                : is64  ? skinny64_ctr_set_tweak(obj, ap, (unsigned)len)
                        : mantis_ctr_set_tweak(obj, ap, (unsigned)len);
        else
            ret = is128 ? skinny128_ctr_set_counter(obj, ap, (unsigned)len)
                : is64  ? skinny64_ctr_set_counter(obj, ap, (unsigned)len)
                        : mantis_ctr_set_counter(obj, ap, (unsigned)len);
        call_end();
        jint("ret", ret);
    } else if (!strcmp(opname, "ctr_encrypt")) {
        size_t n = hexbytes(arg("in"), ib, sizeof ib);
        int innull = is_null("in"), outnull = (int)argi("outnull", 0);
        int inplace = (int)argi("ip", 0);
        size_t len = (size_t)argu("n", n);
        uint8_t *ip = innull ? NULL : put(A_IN, "pi", ib, n, 0);
        uint8_t *op = outnull ? NULL : inplace ? ip : place(A_OUT, n, pl_mode("po"), pl_align("po"));
        jbytes_or_null("in", ib, n, innull); jint("n", (long)len);
        jint("outnull", outnull); jint("ip", inplace);
        if (arg("rr")) jint("rr", argi("rr", 0));
        call_begin();
        if (arg("rr") && ctxp && *ctxp) {
            WITH_RR(ctx_rounds(kind, *ctxp), { ret = is128 ? skinny128_ctr_encrypt(op, ip, len, obj) : is64 ? skinny64_ctr_encrypt(op, ip, len, obj) : mantis_ctr_encrypt(op, ip, len, obj); });
        } else {
            ret = is128 ? skinny128_ctr_encrypt(op, ip, len, obj) : is64 ? skinny64_ctr_encrypt(op, ip, len, obj) : mantis_ctr_encrypt(op, ip, len, obj);
        }
        call_end();
        jint("ret", ret);
        if (op && ret) jbytes("out", op, n); else jbytes("out", ob, 0);
        log_alloc(ret ? op : NULL, ret ? n : 0);
        jend();
        return;
    }
    (void)bs;
    log_alloc(NULL, 0);
    jend();
}

static const char *be_name_par(const char *kind, const void *vt, size_t psize)
{
    if (!vt) return "gen";
    if (!strcmp(kind, "s128") && psize == 128) return "v256";
    return "v128";
}

static void do_par(void)
{
    const char *kind = arg("k");
    int is128 = !strcmp(kind, "s128"), is64 = !strcmp(kind, "s64");
    int bs = kind_bs(kind);
    int onull = is_null("o");
    int o = onull ? 0 : (int)argi("o", 0);
    int ret = -1;
    void *obj = onull ? NULL : argi("sh", 0) ? (is128 ? (void *)&shared->p128 : is64 ? (void *)&shared->p64 : (void *)&shared->pm)
              : (is128 ? (void *)&p128[o] : is64 ? (void *)&p64[o] : (void *)&pm[o]);
    /* the three parallel handle structs have identical layout */
    Skinny128ParallelECB_t *h = (Skinny128ParallelECB_t *)obj;

    jbegin(opname); echo_common();

    if (!strcmp(opname, "par_init")) {
        const char *pf = arg("prefill");
        if (pf && obj) {
            memset(obj, (int)strtol(pf, NULL, 0), sizeof(Skinny128ParallelECB_t));
            jint("prefill", strtol(pf, NULL, 0));
        } else if (paint >= 0 && obj && !argi("sh", 0) && !h->ctx) {
            memset(obj, paint == 256 ? 0xC3 : paint, sizeof(Skinny128ParallelECB_t));
        }
        set_cap();
        if (arg("cap")) jint("cap", argi("cap", 2));
        int fail = (int)argi("fail", 0);
        jint("fail", fail);
        unsigned long g = argu("garbage", 0);
        call_begin();
        fail_next = fail;
        if (arg("garbage"))
            ret = call1_garbage(is128 ? (void *)skinny128_parallel_ecb_init : is64 ? (void *)skinny64_parallel_ecb_init : (void *)mantis_parallel_ecb_init, obj, g);
        else
            ret = is128 ? skinny128_parallel_ecb_init(obj) : is64 ? skinny64_parallel_ecb_init(obj) : mantis_parallel_ecb_init(obj);
        fail_next = 0;
        call_end();
        jint("ret", ret);
        jint("failed", fail_hit);
        if (obj && ret) {
            jstr("be", be_name_par(kind, h->vtable, h->parallel_size));
            jint("psize", (long)h->parallel_size);
        }
        if (obj) jint("ctxnull", h->ctx == NULL);
    } else if (!strcmp(opname, "par_cleanup")) {
        call_begin();
        if (is128) skinny128_parallel_ecb_cleanup(obj); else if (is64) skinny64_parallel_ecb_cleanup(obj); else mantis_parallel_ecb_cleanup(obj);
        call_end();
        if (obj) jint("ctxnull", h->ctx == NULL);
    } else if (!strcmp(opname, "par_set_key")) {
        size_t n = hexbytes(arg("key"), kb, sizeof kb);
        unsigned long len = argu("len", n);
        unsigned long rounds = argu("rounds", 8);
        int mode = (int)argi("mode", 1);
        int knull = is_null("key");
        uint8_t *kp = knull ? NULL : put(A_KEY, "pk", kb, n, 0);
        jbytes_or_null("key", kb, n, knull); jlen_capped("len", len);
        if (!is128 && !is64) { jlen_capped("nr", rounds); jint("mode", mode); }
        call_begin();
        ret = is128 ? skinny128_parallel_ecb_set_key(obj, kp, (unsigned)len)
            : is64  ? skinny64_parallel_ecb_set_key(obj, kp, (unsigned)len)
                    : mantis_parallel_ecb_set_key(obj, kp, (unsigned)len, (unsigned)rounds, mode);
        call_end();
        jint("ret", ret);
    } else if (!strcmp(opname, "par_swap")) {
        call_begin();
        mantis_parallel_ecb_swap_modes(obj);
        call_end();
    } else { /* par_encrypt / par_decrypt / par_crypt */
        size_t n = hexbytes(arg("in"), ib, sizeof ib);
        int inplace = (int)argi("ip", 0);
        size_t len = (size_t)argu("n", n);
        uint8_t *ip = put(A_IN, "pi", ib, n, 0);
        uint8_t *op = inplace ? ip : place(A_OUT, n, pl_mode("po"), pl_align("po"));
        uint8_t *tp = NULL;
        jbytes("in", ib, n); jint("n", (long)len); jint("ip", inplace);
        if (!is128 && !is64) {
            size_t tn = hexbytes(arg("tweak"), tb, sizeof tb);
            tp = put(A_TW, "pt", tb, tn, 0);
            jbytes("tweak", tb, tn);
        }
        if (arg("rr")) jint("rr", argi("rr", 0));
        call_begin();
        {
            unsigned dummy = 0;
            unsigned *rp = (arg("rr") && h && h->ctx) ? ctx_rounds(kind, h->ctx) : &dummy;
            WITH_RR(rp, {
                if (!strcmp(opname, "par_encrypt"))
                    ret = is128 ? skinny128_parallel_ecb_encrypt(op, ip, len, obj) : skinny64_parallel_ecb_encrypt(op, ip, len, obj);
                else if (!strcmp(opname, "par_decrypt"))
                    ret = is128 ? skinny128_parallel_ecb_decrypt(op, ip, len, obj) : skinny64_parallel_ecb_decrypt(op, ip, len, obj);
                else
                    ret = mantis_parallel_ecb_crypt(op, ip, tp, len, obj);
            });
        }
        call_end();
        jint("ret", ret);
        if (ret) jbytes("out", op, n); else jbytes("out", ob, 0);
        log_alloc(ret ? op : NULL, ret ? n : 0);
        jend();
        return;
    }
    (void)bs;
    log_alloc(NULL, 0);
    jend();
}


/* ------------------------------------------------------------------ */
/* Requests of 4 GiB and more (lengths that do not fit 32 bits)        */

#define HCHUNK ((size_t)2 << 20)
typedef struct { uint8_t *base; size_t maplen; uint8_t *ptr; } Region;

/* a read-only region of <total> bytes in which <pat> (patlen divides HCHUNK)
   repeats: one 2 MiB memfd mapped over and over; ends flush against PROT_NONE */
static Region huge_pattern(size_t total, const uint8_t *pat, size_t patlen)
{
    Region r;
    size_t rounded = (total + HCHUNK - 1) / HCHUNK * HCHUNK, off;
    int fd = memfd_create("drvhuge", 0);
    uint8_t *tmp;
    if (fd < 0 || ftruncate(fd, (off_t)HCHUNK) != 0) { perror("memfd"); _exit(3); }
    tmp = mmap(NULL, HCHUNK, PROT_READ | PROT_WRITE, MAP_SHARED, fd, 0);
    if (tmp == MAP_FAILED) { perror("mmap"); _exit(3); }
    for (off = 0; off < HCHUNK; off += patlen) memcpy(tmp + off, pat, patlen);
    munmap(tmp, HCHUNK);
    r.maplen = rounded + PAGE;
    r.base = mmap(NULL, r.maplen, PROT_NONE, MAP_PRIVATE | MAP_ANONYMOUS | MAP_NORESERVE, -1, 0);
    if (r.base == MAP_FAILED) { perror("mmap"); _exit(3); }
    for (off = 0; off < rounded; off += HCHUNK)
        if (mmap(r.base + off, HCHUNK, PROT_READ, MAP_SHARED | MAP_FIXED, fd, 0) == MAP_FAILED) { perror("mmap"); _exit(3); }
    close(fd);
    /* the pattern period divides the distance to the end, so the region still starts on a pattern boundary
       whenever total is a multiple of patlen */
    r.ptr = r.base + (rounded - total);
    return r;
}

/* a zero-filled region of <total> bytes between two PROT_NONE pages, ending flush against the second */
static Region huge_anon(size_t total, int writable)
{
    Region r;
    size_t rounded = (total + PAGE - 1) / PAGE * PAGE;
    r.maplen = rounded + 2 * PAGE;
    r.base = mmap(NULL, r.maplen, PROT_NONE, MAP_PRIVATE | MAP_ANONYMOUS | MAP_NORESERVE, -1, 0);
    if (r.base == MAP_FAILED) { perror("mmap"); _exit(3); }
    if (mprotect(r.base + PAGE, rounded, writable ? (PROT_READ | PROT_WRITE) : PROT_READ) != 0) { perror("mprotect"); _exit(3); }
    r.ptr = r.base + PAGE + (rounded - total);
    return r;
}

/* par_huge k= o= gib= rem= enc= blk=<one block> [tweak=<8 bytes>]:
   every input block is <blk> (every tweak <tweak>), so every output block must
   be one and the same value; logged: that value and how many blocks differ from it */
static void do_par_huge(void)
{
    const char *kind = arg("k");
    int is128 = !strcmp(kind, "s128"), is64 = !strcmp(kind, "s64");
    size_t bs = (size_t)kind_bs(kind);
    int o = (int)argi("o", 0), ret = -1, enc = (int)argi("enc", 1);
    void *obj = is128 ? (void *)&p128[o] : is64 ? (void *)&p64[o] : (void *)&pm[o];
    size_t total = ((size_t)argu("gib", 4) << 30) + (size_t)argu("rem", 0);
    uint8_t blk[16], tw[8];
    Region in, out, twr;
    size_t i, nb = total / bs;
    long diff = 0;
    hexbytes(arg("blk"), blk, sizeof blk);
    jbegin("par_huge"); echo_common();
    jint("gib", (long)argu("gib", 4)); jint("rem", (long)argu("rem", 0)); jint("enc", enc);
    jbytes("in", blk, bs);
    in = huge_pattern(total, blk, bs);
    twr.ptr = NULL; twr.base = NULL; twr.maplen = 0;
    if (!is128 && !is64) {
        hexbytes(arg("tweak"), tw, sizeof tw);
        jbytes("tweak", tw, 8);
        twr = huge_pattern(total, tw, 8);
    }
    out = huge_anon(total, 1);
    if (arg("rr")) jint("rr", argi("rr", 0));
    call_begin();
    {
        Skinny128ParallelECB_t *h = (Skinny128ParallelECB_t *)obj;
        unsigned dummy = 0;
        unsigned *rp = (arg("rr") && h->ctx) ? ctx_rounds(kind, h->ctx) : &dummy;
        WITH_RR(rp, {
            if (is128) ret = enc ? skinny128_parallel_ecb_encrypt(out.ptr, in.ptr, total, obj) : skinny128_parallel_ecb_decrypt(out.ptr, in.ptr, total, obj);
            else if (is64) ret = enc ? skinny64_parallel_ecb_encrypt(out.ptr, in.ptr, total, obj) : skinny64_parallel_ecb_decrypt(out.ptr, in.ptr, total, obj);
            else ret = mantis_parallel_ecb_crypt(out.ptr, in.ptr, twr.ptr, total, obj);
        });
    }
    call_end();
    jint("ret", ret);
    for (i = 1; i < nb; ++i)
        if (memcmp(out.ptr + i * bs, out.ptr, bs) != 0) ++diff;
    jbytes("out0", out.ptr, ret && nb ? bs : 0);
    jint("diff", diff);
    munmap(out.base, out.maplen);
    munmap(in.base, in.maplen);
    if (twr.base) munmap(twr.base, twr.maplen);
    log_alloc(NULL, 0);
    jend();
}

/* ctr_huge k= o= gib= rem= samples=i1,i2,...: all-zero input, so the output is
   the keystream; logged: the whole blocks number i1, i2, ... (0-based, counted
   from the start of the request) and the last <tail> bytes of the request */
static void do_ctr_huge(void)
{
    const char *kind = arg("k");
    int is128 = !strcmp(kind, "s128"), is64 = !strcmp(kind, "s64");
    size_t bs = (size_t)kind_bs(kind);
    int o = (int)argi("o", 0), ret = -1;
    void *obj = is128 ? (void *)&c128[o] : is64 ? (void *)&c64[o] : (void *)&cm[o];
    size_t total = ((size_t)argu("gib", 4) << 30) + (size_t)argu("rem", 0);
    size_t tail = (size_t)argu("tail", 0);
    Region in, out;
    const char *sp = arg("samples");
    jbegin("ctr_huge"); echo_common();
    jint("gib", (long)argu("gib", 4)); jint("rem", (long)argu("rem", 0));
    in = huge_anon(total, 0);
    out = huge_anon(total, 1);
    if (arg("rr")) jint("rr", argi("rr", 0));
    call_begin();
    {
        void *ctx = ((Skinny128CTR_t *)obj)->ctx;
        unsigned dummy = 0;
        unsigned *rp = (arg("rr") && ctx) ? ctx_rounds(kind, ctx) : &dummy;
        WITH_RR(rp, {
            ret = is128 ? skinny128_ctr_encrypt(out.ptr, in.ptr, total, obj) : is64 ? skinny64_ctr_encrypt(out.ptr, in.ptr, total, obj) : mantis_ctr_encrypt(out.ptr, in.ptr, total, obj);
        });
    }
    call_end();
    jint("ret", ret);
    jkey("samples"); jput("[");
    if (ret && sp) {
        int first = 1;
        while (*sp) {
            char *e; unsigned long idx = strtoul(sp, &e, 10);
            char t[48];
            if ((idx + 1) * bs <= total) {
                if (!first) jput(",");
                first = 0;
                snprintf(t, sizeof t, "{\"i\":%lu", idx); jput(t);
                jbytes("b", out.ptr + idx * bs, bs);
                jput("}");
            }
            sp = (*e == ',') ? e + 1 : e;
            if (e == sp && *e) break;
        }
    }
    jput("]");
    jint("tail", (long)tail);
    jbytes("tailb", out.ptr + total - tail, ret ? tail : 0);
    munmap(out.base, out.maplen);
    munmap(in.base, in.maplen);
    log_alloc(NULL, 0);
    jend();
}

/* Verify the layout assumption used by reduced-round CTR/parallel runs:
   the heap context starts with a key schedule whose first member is rounds.
   Logged as a fact; the generator only uses rr= on ctr/par when it holds. */
static void do_layout(void)
{
    int ok = 1;
    uint8_t key[16];
    for (int i = 0; i < 16; i++) key[i] = (uint8_t)(i * 17 + 3);
    Skinny128Key_t ref, *q; Skinny128CTR_t c; Skinny128ParallelECB_t p;
    memset(&c, 0, sizeof c); memset(&p, 0, sizeof p);
    in_lib = 1;
    skinny128_set_key(&ref, key, 16);
    if (skinny128_ctr_init(&c) && skinny128_ctr_set_key(&c, key, 16)) {
        q = c.ctx;
        if (q->rounds != ref.rounds || memcmp(q->schedule, ref.schedule, 40 * 8)) ok = 0;
    } else ok = 0;
    if (skinny128_parallel_ecb_init(&p) && skinny128_parallel_ecb_set_key(&p, key, 16)) {
        q = p.ctx;
        if (q->rounds != ref.rounds || memcmp(q->schedule, ref.schedule, 40 * 8)) ok = 0;
    } else ok = 0;
    Skinny64Key_t ref64, *q6; Skinny64CTR_t c6; Skinny64ParallelECB_t p6;
    memset(&c6, 0, sizeof c6); memset(&p6, 0, sizeof p6);
    skinny64_set_key(&ref64, key, 8);
    if (skinny64_ctr_init(&c6) && skinny64_ctr_set_key(&c6, key, 8)) {
        q6 = c6.ctx;
        if (q6->rounds != ref64.rounds || memcmp(q6->schedule, ref64.schedule, 32 * 4)) ok = 0;
    } else ok = 0;
    if (skinny64_parallel_ecb_init(&p6) && skinny64_parallel_ecb_set_key(&p6, key, 8)) {
        q6 = p6.ctx;
        if (q6->rounds != ref64.rounds || memcmp(q6->schedule, ref64.schedule, 32 * 4)) ok = 0;
    } else ok = 0;
    MantisKey_t refm, *qm; MantisCTR_t cmm; MantisParallelECB_t pmm;
    memset(&cmm, 0, sizeof cmm); memset(&pmm, 0, sizeof pmm);
    mantis_set_key(&refm, key, 16, 7, MANTIS_ENCRYPT);
    if (mantis_ctr_init(&cmm) && mantis_ctr_set_key(&cmm, key, 16, 7)) {
        qm = cmm.ctx;
        if (qm->rounds != 7 || memcmp(&qm->k0, &refm.k0, 8) || memcmp(&qm->k1, &refm.k1, 8)) ok = 0;
    } else ok = 0;
    if (mantis_parallel_ecb_init(&pmm) && mantis_parallel_ecb_set_key(&pmm, key, 16, 7, MANTIS_ENCRYPT)) {
        qm = pmm.ctx;
        if (qm->rounds != 7 || memcmp(&qm->k0, &refm.k0, 8) || memcmp(&qm->k1, &refm.k1, 8)) ok = 0;
    } else ok = 0;
    skinny128_ctr_cleanup(&c); skinny128_parallel_ecb_cleanup(&p);
    skinny64_ctr_cleanup(&c6); skinny64_parallel_ecb_cleanup(&p6);
    mantis_ctr_cleanup(&cmm); mantis_parallel_ecb_cleanup(&pmm);
    in_lib = 0;
    jbegin("layout"); jint("ok", ok); jint("lv", live_blocks); jend();
}

static void do_env(void)
{
    unsigned a = 0, b = 0, c = 0, d = 0;
    int sse2 = 0, avx2 = 0, osavx = 0, maxleaf;
    maxleaf = (int)__get_cpuid_max(0, NULL);
    if (maxleaf >= 1) {
        __cpuid(1, a, b, c, d);
        sse2 = (d >> 26) & 1;
        if ((c >> 27) & 1) {   /* OSXSAVE */
            unsigned lo, hi;
            __asm__ volatile("xgetbv" : "=a"(lo), "=d"(hi) : "c"(0));
            osavx = ((lo & 6) == 6);
        }
    }
    if (maxleaf >= 7) {
        __cpuid_count(7, 0, a, b, c, d);
        avx2 = (b >> 5) & 1;
    }
    jbegin("env");
    jint("sse2", sse2); jint("avx2", avx2 && osavx); jint("maxleaf", maxleaf > 0x7fff ? 0x7fff : maxleaf);
#ifdef SKINNY_C_VERIF
    jint("hook", 1);
#else
    jint("hook", 0);
#endif
#ifdef DRV_BUILT128
    jint("built128", DRV_BUILT128);
#else
    jint("built128", 1);
#endif
#ifdef DRV_BUILT256
    jint("built256", DRV_BUILT256);
#else
    jint("built256", 1);
#endif
    jend();
}


/* cpu off | cpu maxleaf= sse2= osxsave= avx2= top= noise= : select the CPU model the
   process sees from now on (see cpuid_emulate).  ymm = what XGETBV (not trappable,
   the host's) says about the YMM state; ok = 0: CPUID faulting is not available here */
static void do_cpu(void)
{
    int off = arg("off") != NULL || ntok == 0;
    long r;
    jbegin("cpu");
    if (off) {
        r = syscall(SYS_arch_prctl, ARCH_SET_CPUID, 1);
        cpum.on = 0;
        jint("on", 0); jint("ok", r == 0);
        jend();
        return;
    }
    cpum.maxleaf = (unsigned)argu("maxleaf", 13); cpum.sse2 = (unsigned)argu("sse2", 1);
    cpum.osxsave = (unsigned)argu("osxsave", 1); cpum.avx2 = (unsigned)argu("avx2", 0);
    cpum.top = (unsigned)argu("top", 0); cpum.noise = (unsigned)argu("noise", 0);
    cpum.on = 1;
    r = syscall(SYS_arch_prctl, ARCH_SET_CPUID, 0);
    if (r != 0) cpum.on = 0;
    {
        unsigned lo = 0, hi = 0;
        unsigned a, b, c, d;
        __asm__ volatile("cpuid" : "=a"(a), "=b"(b), "=c"(c), "=d"(d) : "a"(1), "c"(0));   /* emulated if on */
        if (r == 0 ? cpum.osxsave : ((c >> 27) & 1))
            __asm__ volatile("xgetbv" : "=a"(lo), "=d"(hi) : "c"(0));
        jint("on", 1); jint("ok", r == 0);
        jint("maxleaf", (long)cpum.maxleaf); jint("sse2", cpum.sse2); jint("osxsave", cpum.osxsave);
        jint("avx2", cpum.avx2); jint("top", cpum.top); jint("noise", cpum.noise);
        jint("ymm", (lo & 6) == 6);
    }
    jend();
}

static void do_share(void)
{
    /* copy the main thread's objects number 7 into a read-only page */
    Shared *sh = mmap(NULL, 2 * PAGE, PROT_READ | PROT_WRITE, MAP_PRIVATE | MAP_ANONYMOUS, -1, 0);
    if (sh == MAP_FAILED) { perror("mmap"); _exit(3); }
    sh->k128 = k128[7]; sh->k64 = k64[7]; sh->mk = mk[7];
    sh->p128 = p128[7]; sh->p64 = p64[7]; sh->pm = pm[7];
    mprotect(sh, 2 * PAGE, PROT_READ);
    for (int i = 0; i < nblk; i++)
        if (blks[i].live && (blks[i].ptr == sh->p128.ctx || blks[i].ptr == sh->p64.ctx || blks[i].ptr == sh->pm.ctx))
            mprotect(blks[i].map, blks[i].maplen, PROT_READ);
    shared = sh;
    jbegin("share"); jend();
}

static void install_handlers(void)
{
    struct sigaction sa;
    stack_t ss;
    ss.ss_sp = mmap(NULL, 1 << 16, PROT_READ | PROT_WRITE, MAP_PRIVATE | MAP_ANONYMOUS, -1, 0);
    ss.ss_size = 1 << 16; ss.ss_flags = 0;
    sigaltstack(&ss, NULL);
    memset(&sa, 0, sizeof sa);
    sa.sa_sigaction = on_crash;
    sa.sa_flags = SA_ONSTACK | SA_NODEFER | SA_SIGINFO;
    sigaction(SIGSEGV, &sa, NULL);
    sigaction(SIGBUS, &sa, NULL);
    sigaction(SIGILL, &sa, NULL);
    sigaction(SIGFPE, &sa, NULL);
    sigaction(SIGABRT, &sa, NULL);
}

/* execute scenario lines [from, to) on the calling thread */
static int run_lines(char **lines, int from, int to)
{
    int skipping = 0;
    for (int li = from; li < to; li++) {
        char *line = strdup(lines[li]);
        char *save = NULL;
        ntok = 0;
        char *sp = strtok_r(line, " \t\r\n", &save);
        if (!sp || sp[0] == '#') { free(line); continue; }
        snprintf(opname, sizeof opname, "%s", sp);
        while ((sp = strtok_r(NULL, " \t\r\n", &save)) && ntok < MAXTOK) {
            char *eq = strchr(sp, '=');
            if (!eq) continue;
            *eq = 0;
            tok_k[ntok] = sp; tok_v[ntok] = eq + 1; ntok++;
        }
        if (!strcmp(opname, "reset")) {
            skipping = 0;
            in_lib = 0;
            jbegin("reset");
            if (arg("sc")) jstr("sc", arg("sc"));
            jint("lv", live_blocks);
            jend();
            release_all_blocks();
            objects_zero();
            arenas_fill();
#ifdef SKINNY_C_VERIF
            if (!nthreads_mode) _skinny_verif_backend_cap = 2;
#endif
            free(line);
            continue;
        }
        if (skipping) { free(line); continue; }
        int sig = sigsetjmp(crash_jmp, 1);
        if (sig) {
            crash_armed = 0; in_lib = 0; fail_next = 0;
            jbegin("crash"); jstr("op", opname); jint("sig", sig); jend();
            skipping = 1;      /* rest of this execution is meaningless */
            continue;
        }
        crash_armed = 1;
        if (!strcmp(opname, "set")) {
            if (arg("paint")) paint = (int)argi("paint", -1);
            if (arg("fast")) fast_mode = (int)argi("fast", 0);
        } else if (!strcmp(opname, "env")) do_env();
        else if (!strcmp(opname, "layout")) do_layout();
        else if (!strcmp(opname, "share")) do_share();
        else if (!strcmp(opname, "cpu")) do_cpu();
        else if (!strcmp(opname, "quiesce")) { jbegin("quiesce"); jint("lv", live_blocks); jend(); }
        else if (!strncmp(opname, "ks_", 3)) do_ks();
        else if (!strncmp(opname, "mk_", 3)) do_mk();
        else if (!strcmp(opname, "ctr_huge")) do_ctr_huge();
        else if (!strcmp(opname, "par_huge")) do_par_huge();
        else if (!strncmp(opname, "ctr_", 4)) do_ctr();
        else if (!strncmp(opname, "par_", 4)) do_par();
        else { fprintf(stderr, "drv: unknown op %s\n", opname); _exit(2); }
        crash_armed = 0;
        free(line);
    }
    return 0;
}

typedef struct { char **lines; int from, to, id, base_live; char *buf; size_t len; } ThreadArg;

static void *thread_main(void *p)
{
    ThreadArg *a = p;
    outf = open_memstream(&a->buf, &a->len);
    arenas_init();
    arenas_fill();
    objects_zero();
    install_handlers();
    live_blocks = a->base_live;     /* blocks owned by the objects of the prologue */
    run_lines(a->lines, a->from, a->to);
    fclose(outf);
    outf = NULL;
    return NULL;
}

int main(int argc, char **argv)
{
    FILE *f = argc > 1 ? fopen(argv[1], "r") : stdin;
    static char line[1 << 20];
    char **lines = NULL;
    int n = 0, cap = 0, split = -1, nthreads = 0;
    if (!f) { perror(argv[1]); return 2; }
    while (fgets(line, sizeof line, f)) {
        if (n == cap) { cap = cap ? cap * 2 : 1024; lines = realloc(lines, cap * sizeof *lines); }
        if (!strncmp(line, "threads", 7) && split < 0) {
            split = n;
            const char *q = strstr(line, "n=");
            nthreads = q ? atoi(q + 2) : 4;
            continue;
        }
        lines[n++] = strdup(line);
    }
    arenas_init();
    arenas_fill();
    objects_zero();
    install_handlers();
    if (split < 0)
        return run_lines(lines, 0, n);

    /* prologue on the main thread, then the body on every thread concurrently */
    nthreads_mode = 1;
    run_lines(lines, 0, split);
    ThreadArg *ta = calloc((size_t)nthreads, sizeof *ta);
    pthread_t *th = calloc((size_t)nthreads, sizeof *th);
    for (int i = 0; i < nthreads; i++) {
        ta[i].lines = lines; ta[i].from = split; ta[i].to = n; ta[i].id = i;
        ta[i].base_live = live_blocks;
        pthread_create(&th[i], NULL, thread_main, &ta[i]);
    }
    for (int i = 0; i < nthreads; i++) {
        pthread_join(th[i], NULL);
        printf("{\"e\":\"thread\",\"id\":%d}\n", i);
        fwrite(ta[i].buf, 1, ta[i].len, stdout);
    }
    fflush(stdout);
    return 0;
}
