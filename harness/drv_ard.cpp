/*
 * drv_ard.cpp - scenario executor for the Arduino port (portable C++ path).
 *
 * Executes the same scenario language as drv.c on the Arduino classes and logs
 * the SAME event vocabulary, so that its traces are validated by the same TLA+
 * trace specification (the class is chosen from the kind, the object family
 * and the key length of the call).  Private members are opened up so that the
 * schedule image can be logged like the public structs of the C library.
 */
#define private public
#define protected public
#include "Skinny128.h"
#include "Skinny64.h"
#include "Mantis8.h"
#include "CTR.h"
#undef private
#undef protected

#include <stdio.h>
#include <stdlib.h>
#include <string.h>
#include <stdint.h>
#include <string>
#include <map>

#define MAXTOK 32
static char *tok_k[MAXTOK], *tok_v[MAXTOK];
static int ntok;
static char opname[64];

static const char *arg(const char *k)
{
    for (int i = 0; i < ntok; i++) if (!strcmp(tok_k[i], k)) return tok_v[i];
    return NULL;
}
static long argi(const char *k, long def) { const char *v = arg(k); return v ? strtol(v, NULL, 0) : def; }
static unsigned long argu(const char *k, unsigned long def) { const char *v = arg(k); return v ? strtoul(v, NULL, 0) : def; }
static int is_null(const char *k) { const char *v = arg(k); return v && !strcmp(v, "null"); }
static size_t hexbytes(const char *v, uint8_t *out, size_t max)
{
    size_t n = 0;
    if (!v || !strcmp(v, "null") || !strcmp(v, "-")) return 0;
    while (v[0] && v[1] && n < max) { unsigned x; sscanf(v, "%2x", &x); out[n++] = (uint8_t)x; v += 2; }
    return n;
}

static std::string jb;
static void jput(const char *s) { jb += s; }
static void jbegin(const char *e) { jb.clear(); jput("{\"e\":\""); jput(e); jput("\""); }
static void jkey(const char *k) { jput(",\""); jput(k); jput("\":"); }
static void jint(const char *k, long v) { char t[32]; jkey(k); snprintf(t, sizeof t, "%ld", v); jput(t); }
static void jstr(const char *k, const char *v) { jkey(k); jput("\""); jput(v); jput("\""); }
static void jbytes(const char *k, const uint8_t *p, size_t n)
{
    char t[8]; jkey(k); jput("[");
    for (size_t i = 0; i < n; i++) { snprintf(t, sizeof t, i ? ",%u" : "%u", p[i]); jput(t); }
    jput("]");
}
static void jbytes_or_null(const char *k, const uint8_t *p, size_t n, int isnull)
{
    char t[64]; jbytes(k, p, isnull ? 0 : n); snprintf(t, sizeof t, "%s_null", k); jint(t, isnull);
}
static void jlen_capped(const char *k, unsigned long v) { jint(k, v > 2147483647ul ? 2147483647l : (long)v); }
static void jend(void) { jput("}\n"); fputs(jb.c_str(), stdout); fflush(stdout); }

static int live_objs;
static void log_alloc(int nf)
{
    jint("na", 0); jint("nf", nf); jint("nz", 0); jint("badfree", 0); jint("lv", live_objs); jint("stray", 0);
}
static void echo_common(void)
{
    const char *k = arg("k"), *o = arg("o");
    if (k) jstr("k", k);
    if (o) { if (!strcmp(o, "null")) jint("o", -1); else jint("o", atol(o)); }
}

#define NOBJ 8
struct Slot {
    Skinny128_128 a128; Skinny128_256 a256; Skinny128_384 a384;
    Skinny128_256_Tweaked t256; Skinny128_384_Tweaked t384;
    Skinny64_64 b64; Skinny64_128 b128; Skinny64_192 b192;
    Skinny64_128_Tweaked u128; Skinny64_192_Tweaked u192;
    Mantis8 m8;
    CTR<Skinny128_128> c128; CTR<Skinny128_256> c256; CTR<Skinny128_384> c384;
    CTR<Skinny128_256_Tweaked> ct256; CTR<Skinny128_384_Tweaked> ct384;
    /* which class currently represents the plain / tweaked / ctr object of this slot */
    int plain128, plain64, tw128, tw64, ctrsel, ctrlive;
};
static Slot *slots[NOBJ];

static void slots_reset(void)
{
    for (int i = 0; i < NOBJ; i++) { delete slots[i]; slots[i] = new Slot(); memset(&slots[i]->plain128, 0, 6 * sizeof(int)); }
    live_objs = 0;
}

static Skinny128 *plain128(Slot *s) { return s->plain128 == 1 ? (Skinny128 *)&s->a128 : s->plain128 == 2 ? (Skinny128 *)&s->a256 : s->plain128 == 3 ? (Skinny128 *)&s->a384 : NULL; }
static Skinny64 *plain64(Slot *s) { return s->plain64 == 1 ? (Skinny64 *)&s->b64 : s->plain64 == 2 ? (Skinny64 *)&s->b128 : s->plain64 == 3 ? (Skinny64 *)&s->b192 : NULL; }
static Skinny128_Tweaked *tw128(Slot *s) { return s->tw128 == 1 ? (Skinny128_Tweaked *)&s->t256 : s->tw128 == 2 ? (Skinny128_Tweaked *)&s->t384 : NULL; }
static Skinny64_Tweaked *tw64(Slot *s) { return s->tw64 == 1 ? (Skinny64_Tweaked *)&s->u128 : s->tw64 == 2 ? (Skinny64_Tweaked *)&s->u192 : NULL; }

static void log_sched128(Skinny128 *c, int set) { unsigned r = (c && set) ? c->r : 0; jint("rounds", r); jbytes("sched", c ? (const uint8_t *)c->s : NULL, r * 8u); }
static void log_sched64(Skinny64 *c, int set) { unsigned r = (c && set) ? c->r : 0; jint("rounds", r); jbytes("sched", c ? (const uint8_t *)c->s : NULL, r * 4u); }

static uint8_t kb[8192], ib[1 << 16], ob[1 << 16];

static void do_ks(void)
{
    const char *kind = arg("k");
    int is128 = !strcmp(kind, "s128");
    int bs = is128 ? 16 : 8;
    int o = (int)argi("o", 0);
    Slot *s = slots[o];
    int tweaked = (int)argi("t", 0);
    if (!strcmp(opname, "ks_set_tweaked_key") || !strcmp(opname, "ks_set_tweak")) tweaked = 1;
    int ret = -1;
    jbegin(opname); echo_common(); jint("t", tweaked);
    if (!strcmp(opname, "ks_set_key")) {
        size_t n = hexbytes(arg("key"), kb, sizeof kb);
        unsigned long len = argu("len", n);
        jbytes_or_null("key", kb, n, 0); jlen_capped("len", len);
        int z = (int)(len / bs);
        if (len % bs == 0 && z >= 1 && z <= 3) {
            if (is128) { s->plain128 = z; ret = plain128(s)->setKey(kb, len); }
            else { s->plain64 = z; ret = plain64(s)->setKey(kb, len); }
        } else {
            /* universally invalid length: every class must reject it */
            ret = is128 ? (s->a128.setKey(kb, len) || s->a256.setKey(kb, len) || s->a384.setKey(kb, len))
                        : (s->b64.setKey(kb, len) || s->b128.setKey(kb, len) || s->b192.setKey(kb, len));
        }
        jint("ret", ret);
        if (is128) log_sched128(plain128(s), s->plain128); else log_sched64(plain64(s), s->plain64);
    } else if (!strcmp(opname, "ks_set_tweaked_key")) {
        size_t n = hexbytes(arg("key"), kb, sizeof kb);
        unsigned long len = argu("len", n);
        jbytes_or_null("key", kb, n, 0); jlen_capped("len", len);
        int z = (int)(len / bs);
        if (len % bs == 0 && z >= 1 && z <= 2) {
            if (is128) { s->tw128 = z; ret = ((BlockCipher *)tw128(s))->setKey(kb, len); }
            else { s->tw64 = z; ret = ((BlockCipher *)tw64(s))->setKey(kb, len); }
        } else {
            ret = is128 ? (s->t256.setKey(kb, len) || s->t384.setKey(kb, len))
                        : (s->u128.setKey(kb, len) || s->u192.setKey(kb, len));
        }
        jint("ret", ret);
        if (is128) { log_sched128(tw128(s), s->tw128); jbytes("tw", tw128(s) ? tw128(s)->t : ob, 16); }
        else { log_sched64(tw64(s), s->tw64); jbytes("tw", tw64(s) ? tw64(s)->t : ob, 8); }
    } else if (!strcmp(opname, "ks_set_tweak")) {
        size_t n = hexbytes(arg("tweak"), kb, sizeof kb);
        unsigned long len = argu("len", n);
        int tnull = is_null("tweak");
        jbytes_or_null("tweak", kb, n, tnull); jlen_capped("len", len);
        if (is128) ret = tw128(s)->setTweak(tnull ? NULL : kb, len);
        else ret = tw64(s)->setTweak(tnull ? NULL : kb, len);
        jint("ret", ret);
        if (is128) { log_sched128(tw128(s), s->tw128); jbytes("tw", tw128(s)->t, 16); }
        else { log_sched64(tw64(s), s->tw64); jbytes("tw", tw64(s)->t, 8); }
    } else {
        size_t n = hexbytes(arg("in"), ib, sizeof ib);
        int enc = !strcmp(opname, "ks_enc");
        BlockCipher *c = is128 ? (tweaked ? (BlockCipher *)tw128(s) : (BlockCipher *)plain128(s))
                               : (tweaked ? (BlockCipher *)tw64(s) : (BlockCipher *)plain64(s));
        jbytes("in", ib, n);
        if (enc) c->encryptBlock(ob, ib); else c->decryptBlock(ob, ib);
        jbytes("out", ob, (size_t)bs);
    }
    log_alloc(0);
    jend();
}

static void do_mk(void)
{
    int o = (int)argi("o", 0);
    Slot *s = slots[o];
    int ret = -1;
    jbegin(opname); echo_common();
    if (!strcmp(opname, "mk_set_key")) {
        size_t n = hexbytes(arg("key"), kb, sizeof kb);
        unsigned long len = argu("len", n);
        int mode = (int)argi("mode", 1);
        jbytes_or_null("key", kb, n, 0); jlen_capped("len", len); jlen_capped("nr", argu("rounds", 8)); jint("mode", mode);
        ret = s->m8.setKey(kb, len);
        if (ret && mode != 1) s->m8.swapModes();   /* setKey always keys for encryption */
        jint("ret", ret);
    } else if (!strcmp(opname, "mk_set_tweak")) {
        size_t n = hexbytes(arg("tweak"), kb, sizeof kb);
        unsigned long len = argu("len", n);
        int tnull = is_null("tweak");
        jbytes_or_null("tweak", kb, n, tnull); jlen_capped("len", len);
        ret = s->m8.setTweak(tnull ? NULL : kb, len);
        jint("ret", ret);
    } else if (!strcmp(opname, "mk_swap")) {
        s->m8.swapModes();
    } else {
        size_t n = hexbytes(arg("in"), ib, sizeof ib);
        jbytes("in", ib, n);
        /* encryptBlock and decryptBlock are the same function; alternate between them */
        if (argi("viadec", 0)) s->m8.decryptBlock(ob, ib); else s->m8.encryptBlock(ob, ib);
        jbytes("out", ob, 8);
        log_alloc(0); jend();
        return;
    }
    jint("rounds", 8);
    jbytes("k0", (const uint8_t *)s->m8.st.k0, 8);
    jbytes("k0p", (const uint8_t *)s->m8.st.k0prime, 8);
    jbytes("k1", (const uint8_t *)s->m8.st.k1, 8);
    jbytes("tw", (const uint8_t *)s->m8.st.tweak, 8);
    log_alloc(0);
    jend();
}

static CTRCommon *ctrsel(Slot *s)
{
    switch (s->ctrsel) {
    case 1: return &s->c128; case 2: return &s->c256; case 3: return &s->c384;
    case 4: return &s->ct256; case 5: return &s->ct384; default: return NULL;
    }
}

static void do_ctr(void)
{
    int o = (int)argi("o", 0);
    Slot *s = slots[o];
    int ret = -1;
    jbegin(opname); echo_common();
    if (!strcmp(opname, "ctr_init")) {
        /* a fresh CTR<T> object: all-zero IV is NOT the Arduino default (the counter is
           uninitialised until setIV), so the scenario always sets the counter */
        s->ctrlive = 1; s->ctrsel = 0; live_objs++;
        jint("fail", 0); jint("ret", 1); jint("failed", 0); jstr("be", "gen"); jint("ctxnull", 0);
        jint("na", 1); jint("nf", 0); jint("nz", 0); jint("badfree", 0); jint("lv", live_objs); jint("stray", 0);
        jend();
        return;
    } else if (!strcmp(opname, "ctr_cleanup")) {
        int waslive = s->ctrlive;
        if (waslive) { if (ctrsel(s)) ctrsel(s)->clear(); s->ctrlive = 0; live_objs--; }
        jint("vtnull", 1); jint("ctxnull", 1);
        log_alloc(waslive ? 1 : 0);
        jend();
        return;
    } else if (!strcmp(opname, "ctr_set_key") || !strcmp(opname, "ctr_set_tweaked_key")) {
        size_t n = hexbytes(arg("key"), kb, sizeof kb);
        unsigned long len = argu("len", n);
        int tw = !strcmp(opname, "ctr_set_tweaked_key");
        jbytes_or_null("key", kb, n, 0); jlen_capped("len", len);
        int z = (int)(len / 16);
        int sel = tw ? (z == 1 ? 4 : 5) : z;
        if (s->ctrsel == 0) s->ctrsel = sel;
        /* the class of a CTR object is fixed by its first key in this harness */
        ret = (s->ctrsel == sel) ? ctrsel(s)->setKey(kb, len) : 0;
        jint("ret", ret);
    } else if (!strcmp(opname, "ctr_set_tweak")) {
        size_t n = hexbytes(arg("tweak"), kb, sizeof kb);
        unsigned long len = argu("len", n);
        int tnull = is_null("tweak");
        jbytes_or_null("tweak", kb, n, tnull); jlen_capped("len", len);
        ret = (s->ctrsel == 4) ? s->ct256.cipher.setTweak(tnull ? NULL : kb, len)
            : (s->ctrsel == 5) ? s->ct384.cipher.setTweak(tnull ? NULL : kb, len) : 0;
        /* the C library also resets the keystream position on a tweak change;
           the Arduino CTR wrapper has no tweak API, the caller re-sets the IV */
        jint("ret", ret);
    } else if (!strcmp(opname, "ctr_set_counter")) {
        size_t n = hexbytes(arg("ctr"), kb, sizeof kb);
        unsigned long len = argu("len", n);
        jbytes_or_null("ctr", kb, n, 0); jlen_capped("len", len);
        ret = ctrsel(s)->setIV(kb, len);
        jint("ret", ret);
    } else {
        size_t n = hexbytes(arg("in"), ib, sizeof ib);
        int inplace = (int)argi("ip", 0);
        jbytes_or_null("in", ib, n, 0); jint("n", (long)n); jint("outnull", 0); jint("ip", inplace);
        uint8_t *outp = inplace ? ib : ob;
        if (argi("viadec", 0)) ctrsel(s)->decrypt(outp, ib, n); else ctrsel(s)->encrypt(outp, ib, n);
        jint("ret", 1);
        jbytes("out", outp, n);
    }
    log_alloc(0);
    jend();
}

static void do_clear(void)
{
    /* ard_clear fam=ks|tks|mk : clear() wipes the schedule */
    const char *fam = arg("fam"), *kind = arg("k");
    int o = (int)argi("o", 0);
    Slot *s = slots[o];
    jbegin("ard_clear"); echo_common(); jstr("fam", fam);
    long nz = 0;
    if (!strcmp(fam, "ctr")) {
        /* CTR<T>::clear(): the object stays what it is; key, counter and buffered key stream are gone */
        CTRCommon *c = ctrsel(s);
        c->clear();
        for (int i = 0; i < 16; i++) nz += (c->counter[i] != 0) + (c->state[i] != 0);
    } else if (!strcmp(fam, "mk")) {
        s->m8.clear();
        for (size_t i = 0; i < sizeof(s->m8.st); i++) nz += ((const uint8_t *)&s->m8.st)[i] != 0;
    } else {
        int is128 = !strcmp(kind, "s128"), tw = !strcmp(fam, "tks");
        if (is128) {
            Skinny128 *c = tw ? (Skinny128 *)tw128(s) : plain128(s);
            if (tw) tw128(s)->clear(); else c->clear();
            for (unsigned i = 0; i < c->r * 8u; i++) nz += ((const uint8_t *)c->s)[i] != 0;
            if (tw) for (int i = 0; i < 16; i++) nz += tw128(s)->t[i] != 0;
            if (tw) s->tw128 = 0; else s->plain128 = 0;
        } else {
            Skinny64 *c = tw ? (Skinny64 *)tw64(s) : plain64(s);
            if (tw) tw64(s)->clear(); else c->clear();
            for (unsigned i = 0; i < c->r * 4u; i++) nz += ((const uint8_t *)c->s)[i] != 0;
            if (tw) for (int i = 0; i < 8; i++) nz += tw64(s)->t[i] != 0;
            if (tw) s->tw64 = 0; else s->plain64 = 0;
        }
    }
    jint("nzstate", nz);
    log_alloc(0);
    jend();
}

int main(int argc, char **argv)
{
    FILE *f = argc > 1 ? fopen(argv[1], "r") : stdin;
    static char line[1 << 20];
    if (!f) { perror(argv[1]); return 2; }
    slots_reset();
    while (fgets(line, sizeof line, f)) {
        ntok = 0;
        char *sp = strtok(line, " \t\r\n");
        if (!sp || sp[0] == '#') continue;
        snprintf(opname, sizeof opname, "%s", sp);
        while ((sp = strtok(NULL, " \t\r\n")) && ntok < MAXTOK) {
            char *eq = strchr(sp, '=');
            if (!eq) continue;
            *eq = 0; tok_k[ntok] = sp; tok_v[ntok] = eq + 1; ntok++;
        }
        if (!strcmp(opname, "reset")) {
            jbegin("reset"); if (arg("sc")) jstr("sc", arg("sc")); jint("lv", live_objs); jend();
            slots_reset();
            continue;
        }
        if (!strcmp(opname, "env")) {
            jbegin("env"); jint("sse2", 0); jint("avx2", 0); jint("maxleaf", 0); jint("hook", 0);
            jint("built128", 0); jint("built256", 0); jend();
        } else if (!strcmp(opname, "layout") || !strcmp(opname, "set")) {
            continue;
        } else if (!strcmp(opname, "quiesce")) { jbegin("quiesce"); jint("lv", live_objs); jend(); }
        else if (!strcmp(opname, "ard_clear")) do_clear();
        else if (!strcmp(opname, "ard_set_counter_size")) {
            int o = (int)argi("o", 0);
            long size = argi("size", 16);
            jbegin("ard_set_counter_size"); echo_common(); jint("size", size);
            jint("ret", ctrsel(slots[o])->setCounterSize((size_t)size));
            log_alloc(0); jend();
        }
        else if (!strncmp(opname, "ks_", 3)) do_ks();
        else if (!strncmp(opname, "mk_", 3)) do_mk();
        else if (!strncmp(opname, "ctr_", 4)) do_ctr();
        else { fprintf(stderr, "drv_ard: unknown op %s\n", opname); return 2; }
    }
    return 0;
}
