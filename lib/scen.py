"""Scenario building blocks.  A scenario is text: one abstract API call per
line for harness/drv.  All randomness is here, seeded; the driver has none."""
import random

BS = {"s128": 16, "s64": 8, "mantis": 8}
MAXZ = {"s128": 3, "s64": 3}
FULL_ROUNDS = {("s128", 1): 40, ("s128", 2): 48, ("s128", 3): 56,
               ("s64", 1): 32, ("s64", 2): 36, ("s64", 3): 40}


def hx(b):
    if b is None:
        return "null"
    b = bytes(b)
    return b.hex() if len(b) else "-"


class Sc:
    def __init__(self, seed, placements=True):
        self.rng = random.Random(seed)
        self.lines = []
        self.nexec = 0
        self.placements = placements
        self.head()

    def head(self):
        self.lines.append("env")
        self.lines.append("layout")

    def reset(self, tag):
        self.nexec += 1
        self.lines.append("reset sc=%s" % tag)

    def raw(self, line):
        self.lines.append(line)

    def pl(self):
        """a random placement for one pointer argument"""
        if not self.placements:
            return "e"
        r = self.rng.random()
        if r < 0.45:
            return "e"
        if r < 0.6:
            return "s"
        return "m%d" % self.rng.randrange(64)

    def op(self, name, **kw):
        parts = [name]
        for k, v in kw.items():
            if v is None:
                continue
            if isinstance(v, (bytes, bytearray, list, tuple)):
                v = hx(v)
            parts.append("%s=%s" % (k, v))
        self.lines.append(" ".join(parts))

    def text(self):
        return "\n".join(self.lines) + "\n"

    # --- convenience wrappers -------------------------------------------
    def rb(self, n):
        return bytes(self.rng.randrange(256) for _ in range(n))

    def rb_nz(self, n):
        """random bytes, none zero (so that padding errors show)"""
        return bytes(self.rng.randrange(1, 256) for _ in range(n))

    def ks_set_key(self, k, o, key, length=None, **kw):
        self.op("ks_set_key", k=k, o=o, t=0, key=hx(key),
                len=(len(key) if key is not None else 0) if length is None else length,
                pk=self.pl(), **kw)

    def ks_set_tweaked_key(self, k, o, key, length=None, **kw):
        self.op("ks_set_tweaked_key", k=k, o=o, key=hx(key),
                len=(len(key) if key is not None else 0) if length is None else length,
                pk=self.pl(), **kw)

    def ks_set_tweak(self, k, o, tweak, length=None, **kw):
        self.op("ks_set_tweak", k=k, o=o, tweak=hx(tweak),
                len=(len(tweak) if tweak is not None else 0) if length is None else length,
                pt=self.pl(), **kw)

    def ks_crypt(self, enc, k, o, blk, t=0, rr=None, ov=None):
        kw = dict(k=k, o=o, t=t, rr=rr)
        kw["in"] = hx(blk)
        if ov is not None:
            kw["ov"] = ov
            kw["pi"] = "m%d" % self.rng.randrange(32)
        else:
            kw["pi"] = self.pl()
            kw["po"] = self.pl()
        self.op("ks_enc" if enc else "ks_dec", **kw)

    def mk_set_key(self, o, key, rounds, mode, length=None):
        self.op("mk_set_key", o=o, key=hx(key),
                len=(len(key) if key is not None else 0) if length is None else length,
                rounds=rounds, mode=mode, pk=self.pl())

    def mk_set_tweak(self, o, tweak, length=None):
        self.op("mk_set_tweak", o=o, tweak=hx(tweak),
                len=(len(tweak) if tweak is not None else 8) if length is None else length,
                pt=self.pl())

    def mk_swap(self, o):
        self.op("mk_swap", o=o)

    def mk_crypt(self, o, blk, tweak=None, rr=None, ov=None):
        kw = dict(o=o, rr=rr)
        kw["in"] = hx(blk)
        if ov is not None:
            kw["ov"] = ov
            kw["pi"] = "m%d" % self.rng.randrange(32)
        else:
            kw["pi"] = self.pl()
            kw["po"] = self.pl()
        if tweak is not None:
            kw["tweak"] = hx(tweak)
            kw["pt"] = self.pl()
            self.op("mk_crypt_tw", **kw)
        else:
            self.op("mk_crypt", **kw)

    # CTR
    def ctr_init(self, k, o, cap=None, fail=None, prefill=None, garbage=None):
        self.op("ctr_init", k=k, o=o, cap=cap, fail=fail, prefill=prefill, garbage=garbage)

    def ctr_cleanup(self, k, o):
        self.op("ctr_cleanup", k=k, o=o)

    def ctr_set_key(self, k, o, key, length=None, rounds=None):
        self.op("ctr_set_key", k=k, o=o, key=hx(key),
                len=(len(key) if key is not None else 0) if length is None else length,
                rounds=rounds, pk=self.pl())

    def ctr_huge(self, k, o, gib, rem, samples, tail=0, rr=None):
        self.op("ctr_huge", k=k, o=o, gib=gib, rem=rem, samples=",".join(str(x) for x in samples), tail=tail, rr=rr)

    def par_huge(self, k, o, gib, rem, blk, enc=True, tweak=None, rr=None):
        kw = dict(k=k, o=o, gib=gib, rem=rem, enc=1 if enc else 0, blk=hx(blk), rr=rr)
        if tweak is not None:
            kw["tweak"] = hx(tweak)
        self.op("par_huge", **kw)

    def ctr_set_tweaked_key(self, k, o, key, length=None):
        self.op("ctr_set_tweaked_key", k=k, o=o, key=hx(key),
                len=(len(key) if key is not None else 0) if length is None else length,
                pk=self.pl())

    def ctr_set_tweak(self, k, o, tweak, length=None):
        self.op("ctr_set_tweak", k=k, o=o, tweak=hx(tweak),
                len=(len(tweak) if tweak is not None else BS[k]) if length is None else length,
                pt=self.pl())

    def ctr_set_counter(self, k, o, c, length=None):
        self.op("ctr_set_counter", k=k, o=o, ctr=hx(c),
                len=(len(c) if c is not None else 0) if length is None else length,
                pt=self.pl())

    def ctr_encrypt(self, k, o, data, ip=None, outnull=None, n=None, rr=None):
        kw = dict(k=k, o=o, ip=ip, outnull=outnull, n=n, rr=rr, pi=self.pl(), po=self.pl())
        kw["in"] = hx(data)
        self.op("ctr_encrypt", **kw)

    # parallel
    def par_init(self, k, o, cap=None, fail=None, prefill=None, garbage=None):
        self.op("par_init", k=k, o=o, cap=cap, fail=fail, prefill=prefill, garbage=garbage)

    def par_cleanup(self, k, o):
        self.op("par_cleanup", k=k, o=o)

    def par_set_key(self, k, o, key, length=None, rounds=None, mode=None):
        self.op("par_set_key", k=k, o=o, key=hx(key),
                len=(len(key) if key is not None else 0) if length is None else length,
                rounds=rounds, mode=mode, pk=self.pl())

    def par_crypt(self, k, o, data, enc=True, tweak=None, ip=None, n=None, rr=None):
        kw = dict(k=k, o=o, ip=ip, n=n, rr=rr, pi=self.pl(), po=self.pl())
        kw["in"] = hx(data)
        if k == "mantis":
            kw["tweak"] = hx(tweak)
            kw["pt"] = self.pl()
            self.op("par_crypt", **kw)
        else:
            self.op("par_encrypt" if enc else "par_decrypt", **kw)

    def par_swap(self, o):
        self.op("par_swap", k="mantis", o=o)

    def quiesce(self):
        self.op("quiesce")


# published vectors (SKINNY / MANTIS paper)
SKINNY_VECTORS = {
    ("s64", 1): ("f5269826fc681238", "06034f957724d19d", "bb39dfb2429b8ac7"),
    ("s64", 2): ("9eb93640d088da6376a39d1c8bea71e1", "cf16cfe8fd0f98aa", "6ceda1f43de92b9e"),
    ("s64", 3): ("ed00c85b120d68618753e24bfd908f60b2dbb41b422dfcd0", "530c61d35e8663c3", "dd2cf1a8f330303c"),
    ("s128", 1): ("4f55cfb0520cac52fd92c15f37073e93", "f20adb0eb08b648a3b2eeed1f0adda14",
                  "22ff30d498ea62d7e45b476e33675b74"),
    ("s128", 2): ("009cec81605d4ac1d2ae9e3085d7a1f31ac123ebfc00fddcf01046ceeddfcab3",
                  "3a0c47767a26a68dd382a695e7022e25", "b731d98a4bde147a7ed4a6f16b9b587f"),
    ("s128", 3): ("df889548cfc7ea52d296339301797449ab588a34a47f1ab2dfe9c8293fbea9a5ab1afac2611012cd8cef952618c3ebe8",
                  "a3994b66ad85a3459f44e92b08f550cb", "94ecf589e2017c601b38c6346a10dcfa"),
}
MANTIS_KEY = bytes.fromhex("92f09952c625e3e9d7a060f714c0292b")
MANTIS_TWEAK = bytes.fromhex("ba912e6f1055fed2")
MANTIS_VECTORS = {5: ("3b5c77a4921f9718", "d6522035c1c0c6c1"), 6: ("d6522035c1c0c6c1", "60e43457311936fd"),
                  7: ("60e43457311936fd", "308e8a07f168f517"), 8: ("308e8a07f168f517", "971ea01a86b410bb")}
