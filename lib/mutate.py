#!/usr/bin/env python3
"""mutate.py <seed> <count> [file-glob ...]  -- mechanical mutation campaign.

Complements the sub-agents' hand-made changes (seeded/): small syntactic changes
(relational operators, +/- 1 on constants, &|^ swaps, shift direction, dropped
statements) are applied one at a time to a scratch COPY of /repo.  A mutant that
still compiles, still passes the 30 tests AND changes the object code of the
default build is handed to the checks that look at that file (VERIF_REPO); a
mutant no check notices is a *survivor* to be triaged by hand (equivalent, outside
every property, or a gap).  Nothing is written to /repo; results go to
/verif/mutation/results-<seed>.jsonl.
"""
import glob, hashlib, json, os, random, re, shutil, subprocess, sys, tempfile, time
from concurrent.futures import ThreadPoolExecutor

VERIF = os.path.dirname(os.path.dirname(os.path.abspath(__file__)))
REPO = "/repo"

CHECKS_FOR = [
    (r"src/skinny(128|64)-cipher\.c", ["C01", "C04", "C10", "C03", "C11"]),
    (r"src/mantis-cipher\.c", ["C02", "C03", "C11"]),
    (r"src/.*-ctr.*\.c", ["C05", "C06", "C14", "C17", "C16"]),
    (r"src/.*-parallel.*\.c", ["C07", "C03", "C14", "C17", "C16"]),
    (r"src/skinny-internal\.[ch]", ["C13", "C16", "C17", "C05", "C07"]),
    (r"src/.*\.h", ["C01", "C02", "C05", "C07"]),
    (r"examples/.*", ["C20"]),
    (r"arduino/.*", ["C19"]),
]

OPS = [
    (r"<=", "<"), (r">=", ">"), (r"(?<![<>=!-])<(?![<=])", "<="), (r"(?<![<>=!-])>(?![>=])", ">="),
    (r"==", "!="), (r"!=", "=="),
    (r"\+=", "-="), (r"-=", "+="),
    (r"<<", ">>"), (r">>", "<<"),
    (r"(?<![&])&(?![&=])", "|"), (r"(?<![|])\|(?![|=])", "&"), (r"\^(?!=)", "|"),
    (r"&&", "||"), (r"\|\|", "&&"),
    (r"\b(\d+)\b", "NUM+1"), (r"\b(\d+)\b", "NUM-1"),
    (r"^(\s+)[^#\s].*;\s*$", "DROP"),
    (r"\+\+", "--"),
    (r"(?<![+])\+(?![+=])", "-"), (r"(?<![->])-(?![-=>])", "+"),
]


def sh(cmd, cwd=None, timeout=1800):
    p = subprocess.run(cmd, cwd=cwd, shell=True, stdout=subprocess.PIPE, stderr=subprocess.STDOUT, timeout=timeout)
    return p.returncode, p.stdout.decode("utf-8", "replace")


def code_lines(path):
    """indices of lines inside function bodies that are neither comments nor preprocessor lines"""
    out, depth, incomment = [], 0, False
    lines = open(path).read().split("\n")
    for i, ln in enumerate(lines):
        s = ln.strip()
        if incomment:
            if "*/" in s:
                incomment = False
            continue
        if s.startswith("/*"):
            if "*/" not in s:
                incomment = True
            continue
        if s.startswith("//") or s.startswith("#") or s.startswith("*"):
            continue
        d0 = depth
        depth += ln.count("{") - ln.count("}")
        if d0 > 0 and s and s not in ("{", "}"):
            out.append(i)
    return lines, out


def make_mutant(rng, files):
    for _ in range(200):
        f = rng.choice(files)
        lines, idx = code_lines(f)
        if not idx:
            continue
        i = rng.choice(idx)
        ln = lines[i]
        code = ln.split("/*")[0]
        pat, rep = rng.choice(OPS)
        ms = list(re.finditer(pat, code))
        if not ms:
            continue
        m = rng.choice(ms)
        if rep == "DROP":
            if re.match(r"\s*(return|break|continue|goto|else|case|default)\b", code) or \
               re.match(r"\s*(const\s+|unsigned\s+|static\s+)?(u?int\d*_t|int|unsigned|char|size_t|uint8_t|Skinny\w+|Mantis\w+|void)\b[^=(]*;", code):
                continue
            new = m.group(1) + ";" + "  /* dropped */"
            desc = "drop statement"
        elif rep.startswith("NUM"):
            v = int(m.group(1))
            if v > 64 and rng.random() < 0.7:
                continue
            nv = v + 1 if rep == "NUM+1" else v - 1
            if nv < 0:
                continue
            new = code[:m.start()] + str(nv) + code[m.end():]
            desc = "%d -> %d" % (v, nv)
        else:
            new = code[:m.start()] + rep + code[m.end():]
            desc = "%s -> %s" % (m.group(0), rep)
        if new == code:
            continue
        return f, i, ln, new + ln[len(code):] if rep != "DROP" else new, desc
    return None


def objhash(root):
    rc, out = sh("cd %s/src && for o in *.o; do objdump -d -r $o | tail -n +3; done | md5sum" % root)
    return out.split()[0] if rc == 0 else None


def main():
    seed, count = int(sys.argv[1]), int(sys.argv[2])
    globs = sys.argv[3:] or ["src/*.c"]
    rng = random.Random(seed)
    files = sorted(set(p for g in globs for p in glob.glob(os.path.join(REPO, g))))
    work = tempfile.mkdtemp(prefix="mutate-")
    os.makedirs(os.path.join(VERIF, "mutation"), exist_ok=True)
    resp = os.path.join(VERIF, "mutation", "results-%d.jsonl" % seed)
    base = os.path.join(work, "base")
    sh("rsync -a --exclude .git %s/ %s/" % (REPO, base))
    sh("make -C %s all" % base)
    h0 = objhash(base)
    muts = []
    seen = set()
    while len(muts) < count:
        m = make_mutant(rng, files)
        if m and (m[0], m[1], m[3]) not in seen:
            seen.add((m[0], m[1], m[3]))
            muts.append(m)

    def one(k_m):
        k, (f, i, old, new, desc) = k_m
        rel = os.path.relpath(f, REPO)
        rec = {"n": k, "file": rel, "line": i + 1, "old": old.strip()[:160], "new": new.strip()[:160], "op": desc}
        d = os.path.join(work, "m%d" % k)
        sh("rsync -a --exclude .git --exclude '*.o' --exclude '*.a' %s/ %s/" % (REPO, d))
        p = os.path.join(d, rel)
        lines = open(p).read().split("\n")
        lines[i] = new
        open(p, "w").write("\n".join(lines))
        try:
            rc, out = sh("make -C %s all 2>&1" % d, timeout=600)
            if rc != 0:
                rec["fate"] = "does not compile"
                return rec
            if rel.startswith("src/") and objhash(d) == h0:
                rec["fate"] = "object code unchanged in the default build"
                return rec
            try:
                rc, out = sh("cd %s/test && timeout 300 ./test-skinny" % d, timeout=400)
            except subprocess.TimeoutExpired:
                rc, out = 1, ""
            nok = len(re.findall(r": ok\s*$", out, re.M))
            if rc != 0 or nok != 30:
                rec["fate"] = "killed by the existing tests (%d/30)" % nok
                return rec
            sh("make -C %s clean" % d)
            checks = next((c for pat, c in CHECKS_FOR if re.match(pat, rel)), ["C01"])
            rec["checks"] = {}
            for c in checks:
                t0 = time.time()
                rc, out = sh("cd %s && VERIF_REPO=%s VERIF_NOEVIDENCE=1 ./vcheck %s quick" % (VERIF, d, c), timeout=3000)
                v = re.findall(r"VIOLATION property=\S+ replay=\S+\n\s+(.{0,120})", out)
                rec["checks"][c] = {"exit": rc, "first": v[0] if v else out.strip().split("\n")[-1][:120]}
                if rc != 0:
                    rec["fate"] = "caught by %s" % c
                    break
            else:
                rec["fate"] = "SURVIVED"
            return rec
        finally:
            shutil.rmtree(d, ignore_errors=True)

    with ThreadPoolExecutor(max_workers=int(os.environ.get("MUT_JOBS", "3"))) as ex:
        for rec in ex.map(one, list(enumerate(muts))):
            with open(resp, "a") as f:
                f.write(json.dumps(rec) + "\n")
            print("%3d %-34s:%-4d %-22s %s" % (rec["n"], rec["file"], rec["line"], rec["op"][:22], rec["fate"]), flush=True)
    shutil.rmtree(work, ignore_errors=True)
    shutil.rmtree(os.path.join(VERIF, "replays"), ignore_errors=True)


if __name__ == "__main__":
    main()
