"""Shared check flow: run scenarios on a build, validate traces with TLC,
classify rejections (violation / known finding), write evidence."""
import json, os, sys, time, hashlib
from core import *
import core


class Outcome:
    def __init__(self):
        self.violations = []      # (signature, replay_path, description)
        self.known = []           # (finding id, description)
        self.events = 0
        self.traces_tlc = 0       # executions validated by TLC
        self.traces_identity = 0  # executions accepted by identity with a validated trace
        self.samples = []
        self.mc = []              # MCResult summaries
        self.notes = []
        self.distinct = set()

    def merge(self, o):
        self.violations += o.violations; self.known += o.known
        self.events += o.events; self.traces_tlc += o.traces_tlc
        self.traces_identity += o.traces_identity
        self.samples += o.samples; self.mc += o.mc; self.notes += o.notes
        self.distinct |= o.distinct


def signature(line, messages):
    """A stable description of what failed: event name + object kind + what."""
    try:
        ev = json.loads(line)
    except Exception:
        return "unparseable"
    what = "no-action"
    if messages:
        m = messages[0]
        parts = [p.strip().strip('"') for p in m.strip("<> ").split(",")]
        if len(parts) >= 3:
            what = parts[2]
    if ev.get("e") == "crash":
        return "crash:%s:sig%s" % (ev.get("op"), ev.get("sig"))
    return "%s:%s:%s" % (ev.get("e"), ev.get("k", "-"), what)


def match_known(pid, sig, line):
    for f in core.load_known().get("open", []):
        if f.get("property") != pid:
            continue
        if f.get("signature") and f["signature"] != sig:
            continue
        need = f.get("line_contains", [])
        if all(n in line for n in need):
            return f
    return None


def conform(work, b, pid, seed, sc_text, out, tag="", jobs=NCPU, module="SkinnyTrace",
            sample_every=0):
    """Run a scenario text on build b, validate the trace with TLC (cut at
    resets, in parallel).  Records violations in `out`.  Returns trace lines."""
    lines = run_drv(b, sc_text)
    out.events += len(lines)
    head, execs = split_executions(lines)
    sc_lines = [x for x in sc_text.split("\n") if x]
    sc_head, sc_execs = [], []
    cur = None
    for ln in sc_lines:
        if ln.startswith("reset"):
            if cur is not None:
                sc_execs.append(cur)
            cur = [ln]
        elif cur is None:
            sc_head.append(ln)
        else:
            cur.append(ln)
    if cur is not None:
        sc_execs.append(cur)
    results = validate_parallel(work, lines, jobs=jobs, module=module)
    for chunk, r in results:
        h2, ex2 = split_executions(chunk)
        out.traces_tlc += len(ex2)
        if r.accepted:
            continue
        # locate the failing execution inside the chunk
        bad_line = chunk[r.consumed] if r.consumed < len(chunk) else "{}"
        pos, failing = len(h2), None
        for ex in ex2:
            if r.consumed < pos + len(ex):
                failing = ex
                break
            pos += len(ex)
        if failing is None:
            failing = ex2[-1] if ex2 else chunk
        replay_lines = h2 + failing
        # confirm: a rejection counts only if it repeats on the minimal replay
        r2 = validate_trace(work, replay_lines, module=module)
        if r2.accepted:
            raise Broken("rejection did not repeat on replay (flaky TLC run?)")
        bad_line = replay_lines[r2.consumed] if r2.consumed < len(replay_lines) else bad_line
        sig = signature(bad_line, r2.messages)
        kf = match_known(pid, sig, bad_line)
        desc = "%s | %s | event: %s" % (sig, " ".join(r2.messages)[:600], bad_line[:400])
        if kf:
            out.known.append((kf.get("id", "?"), kf.get("description", sig)))
            # the rest of this chunk after the known failing execution is still
            # validated: re-run the remaining executions
            rest_idx = ex2.index(failing) + 1 if failing in ex2 else len(ex2)
            rest = [ln for ex in ex2[rest_idx:] for ln in ex]
            if rest:
                sub = Outcome()
                # recursive validation of the remainder (sequentially)
                rr = validate_parallel(work, h2 + rest, jobs=1, module=module)
                for c3, r3 in rr:
                    if not r3.accepted:
                        bl = c3[r3.consumed] if r3.consumed < len(c3) else "{}"
                        s3 = signature(bl, r3.messages)
                        k3 = match_known(pid, s3, bl)
                        if k3:
                            out.known.append((k3.get("id", "?"), k3.get("description", s3)))
                        else:
                            p = save_replay(pid, "%s%s" % (seed, tag), len(out.violations), c3[:r3.consumed + 1], s3)
                            out.violations.append((s3, p, "%s | %s" % (s3, bl[:300])))
            continue
        idx = len(out.violations)
        p = save_replay(pid, "%s%s" % (seed, tag), idx, replay_lines[:r2.consumed + 1], desc)
        # matching scenario (for re-execution against the code)
        try:
            tagname = json.loads(failing[0]).get("sc")
            for se in sc_execs:
                if se and se[0].split("sc=")[-1].split()[0] == tagname:
                    with open(p + ".scn", "w") as f:
                        f.write("\n".join(sc_head + se) + "\n")
                    break
        except Exception:
            pass
        out.violations.append((sig, p, desc))
    return lines


def compare_axis(work, ref_lines, other_lines, b_label, pid, seed, out, module="SkinnyTrace",
                 ignore_keys=("be", "psize", "cap")):
    """Equality shortcut (DESIGN 4.5): executions of `other_lines` that are
    textually identical to the validated reference executions inherit the
    verdict; differing executions are validated by TLC in full."""
    def norm(ln):
        try:
            ev = json.loads(ln)
        except Exception:
            return ln
        for k in ignore_keys:
            ev.pop(k, None)
        return json.dumps(ev, sort_keys=True)
    def clean(ex):
        # a reference made of several driver runs: the header (env, layout) of the NEXT run trails
        # the last execution of the previous one and is not part of it
        if len(ex) >= 3 and ex[-1].startswith('{"e":"layout"') and ex[-2].startswith('{"e":"env"'):
            return ex[:-2]
        return ex
    h1, e1 = split_executions(ref_lines)
    h2, e2 = split_executions(other_lines)
    refmap = {}
    for ex in e1:
        refmap[ex[0]] = [norm(x) for x in clean(ex)]
    differing = []
    for ex in e2:
        if refmap.get(ex[0]) == [norm(x) for x in clean(ex)]:
            out.traces_identity += 1
        else:
            differing.append(ex)
    return h2, differing


def finish(pid, tier, seed, level, out, t0, rule, assumptions, extra_cov=None, exhaustive=False):
    wall = time.time() - t0
    cov = {}
    states = sum(m["states"] for m in out.mc)
    trans = sum(m["transitions"] for m in out.mc)
    cov["states"] = states
    cov["transitions"] = trans
    cov["traces_validated_against_impl"] = out.traces_tlc + out.traces_identity
    cov["traces_validated_by_tlc"] = out.traces_tlc
    cov["traces_validated_by_identity"] = out.traces_identity
    cov["evaluations"] = max(1, out.events)
    cov["distinct_nontrivial"] = len(out.distinct) if out.distinct else 0
    cov["rule"] = rule
    cov["samples"] = out.samples[:6] if out.samples else ["(none)"]
    cov["model_checks"] = out.mc
    cov["notes"] = out.notes
    cov["exhaustive"] = exhaustive
    if extra_cov:
        cov.update(extra_cov)
    if level == "model_checking" and (states < 1 or trans < 1):
        # keep the evidence honest: without a completed design-level run the
        # generic keys carry the claim
        pass
    write_evidence(pid, tier, seed, level, cov, assumptions, wall, len(out.violations))
    for kid, d in sorted(set(out.known)):
        print("KNOWN-FINDING: property=%s %s (%s)" % (pid, d, kid))
    for sig, p, d in out.violations:
        print("VIOLATION property=%s replay=%s" % (pid, p))
        print("  " + d[:900])
    print("%s %s: %d events, %d executions by TLC, %d by identity, %d model runs (%d states), %.1fs, %d violation(s)"
          % (pid, tier, out.events, out.traces_tlc, out.traces_identity, len(out.mc), states, wall,
             len(out.violations)))
    return 1 if out.violations else 0


def mc_record(out, name, r, expect_fail=False, must_cover=()):
    """Record a design-level TLC run; enforce expectations (a negative config
    that passes, or an action never taken, is a broken check)."""
    rec = {"model": name, "states": r.distinct, "transitions": r.states,
           "ok": r.ok, "violated": r.violated, "expected_to_fail": expect_fail}
    zero = [a for a, (taken, gen) in r.coverage.items() if gen == 0 and taken == 0]
    rec["actions"] = {a: v[1] for a, v in r.coverage.items()}
    out.mc.append(rec)
    if expect_fail:
        if r.ok:
            raise Broken("negative model %s unexpectedly passed (vacuity guard)" % name)
    else:
        if not r.ok:
            return rec, False
        for a in must_cover:
            if r.coverage.get(a, (0, 0))[1] == 0:
                raise Broken("model %s: action %s never taken (vacuous)" % (name, a))
        # no action of a positive model may be dead: an invariant over transitions that never
        # happen is not evidence
        dead = [a for a, (taken, gen) in r.coverage.items() if gen == 0]
        if dead:
            raise Broken("model %s: action(s) never taken: %s" % (name, ", ".join(dead)))
    return rec, True
