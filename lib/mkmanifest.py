#!/usr/bin/env python3
"""Regenerates /verif/MANIFEST.json from the table below (single place to edit)."""
import json, os, subprocess
HERE = os.path.dirname(os.path.dirname(os.path.abspath(__file__)))

CLAIMS = {
 "C01": dict(cat="exploration", tech="trace validation (TLC) against an executable TLA+ reference cipher",
   text="Traces of the real single-block functions (all six SKINNY variants, both directions, full and reduced rounds) are validated event by event by TLC against SkinnySpec.tla, a paper-level TLA+ transcription of SKINNY gated by the published vectors. Input space is sampled with structured families (every cell value in every position at reduced rounds, walking key bytes, patterns, random); a block cipher has no interesting state graph, so TLA+ serves as executable oracle.",
   note="Trusted: TLC evaluation of SkinnySpec.tla; the six published vectors as anchor of the oracle. Sampling of 2^128..2^512 input spaces.", ref="5 C01"),
 "C02": dict(cat="exploration", tech="trace validation (TLC) against an executable TLA+ reference cipher",
   text="Traces of mantis_set_key/set_tweak/ecb_crypt/ecb_crypt_tweaked (rounds 5..8 and reduced, both modes, stored and per-call tweak) are validated by TLC against MantisSpec.tla (paper-level MANTIS, gated by the four published vectors in both directions), including the schedule image (k0,k0',k1,tweak,rounds) after every call.",
   note="Trusted: TLC evaluation of MantisSpec.tla; published vectors. Input space sampled.", ref="5 C02"),
}

MC = "model_checking"
TV = "TLC: exhaustive design-level model + trace validation of the real library against the TLA+ contract"
CLAIMS.update({
 "C03": dict(cat=MC, tech=TV, ref="5 C03",
   text="Mantis mode machine MC_Mode.tla is checked exhaustively by TLC in a symbolic xor algebra (all keys/tweaks at once): swap.swap = id, swap = rekey in the other mode with the tweak kept; two wrong swaps must fail. The real MantisKey_t and parallel objects are driven along random walks of that machine and every state image and output is validated by TLC against MantisSpec in the model's mode; for SKINNY the same arbitrary blocks go through encrypt and decrypt of single-block and parallel functions on every back end, each validated against SkinnySpec, so the round trip follows from conformance and Dec.Enc=id of the specification.",
   note="Exhaustive within MC_Mode's constants (2 keys, 3 tweaks, 7 calls); code side samples inputs. Inverse of vector S-boxes driven at reduced rounds over every cell value."),
 "C04": dict(cat=MC, tech=TV, ref="5 C04",
   text="MC_Tweak.tla: the incremental tweak update as the code performs it (xor remembered tweak out, new one in, remember) is checked exhaustively by TLC against 'schedule = Fresh(key, last tweak)' for all call sequences to depth 4 in a symbolic xor algebra; three wrong update rules must fail. Traces of skinny128/64_set_tweaked_key/set_tweak and the CTR tweak API (every length 1..bs, NULL, invalid lengths, random histories) are validated by TLC: after every call the logged schedule image and remembered tweak must equal the schedule SkinnySpec computes afresh from key and latest tweak (TK1 = tweak with domain constant).",
   note="Exhaustive within MC_Tweak's constants; code side: lengths enumerated, values and histories sampled."),
 "C05": dict(cat=MC, tech=TV, ref="5 C05",
   text="MC_Ctr.tla: implementation-shaped CTR models (counter lanes, keystream buffer, offset, three-way copy loop) for batch sizes 1,2,4 (8 in thorough) are checked by TLC to refine the stream-position contract (output = input xor E(c),E(c+1).. independent of call boundaries) over all call sequences of Init/SetCounter/SetKey/Encrypt(0..2B*bs+1) with radix-4 two-digit counters (all carries, wrap-around). Real streams (default counter after init, all-FF, FF-suffix carry chains, short and NULL counters, irregular cuts around block and 4/8-block batch boundaries, zero-length calls, in place) for Skinny-64/128 plain and tweaked and Mantis on every back end are validated by TLC against the real cipher in TLA+.",
   note="Design-level exhaustive within constants; code-level inputs sampled, lower back ends accepted by identity with the TLC-validated reference trace or validated themselves."),
 "C06": dict(cat=MC, tech=TV, ref="5 C06",
   text="Product of the implementation-shaped CTR models for all batch sizes driven in lock-step by TLC (all call sequences incl. key change mid-stream): outputs and denoted stream positions agree; the as-shipped transitions (lanes not staggered, batch dropped on rekey) must fail. Every CTR and parallel scenario (incl. mid-stream key/tweak/counter changes, invalid calls, unkeyed objects) is executed under each back-end cap (hook H2); the reference trace is validated by TLC against the contract, which mentions no back end, and the other traces must be identical up to the back-end name or are validated by TLC themselves.",
   note="A back end the host CPU lacks cannot be run; the cap only lowers the probe's answer."),
 "C07": dict(cat=MC, tech=TV, ref="5 C07",
   text="MC_Par.tla: batch loop + remainder loop equals the map over blocks for every byte count 0..51 (block = 2), psize 4 and 8 blocks, with and without vector table; ragged sizes rejected; dropping the remainder loop must fail. Real parallel encrypt/decrypt/crypt calls with 0..19 blocks (25 thorough), ragged sizes, in/out of place, distinct Mantis tweak per block, all key sizes/rounds/modes, reduced-round S-box sweeps, on every back end, validated block by block by TLC against the specification's single-block cipher; parallel_size against the contract's ParSize(kind, back end).",
   note="Single-block conformance itself is C01/C02."),
 "C10": dict(cat=MC, tech=TV, ref="5 C10",
   text="MC_KeyLen.tla: word-wise model of the partial tweakey load, exhaustive over every length 0..3bs+16 and a huge class x entry point x prior state: accepted iff documented, loaded tweakey = zero-padded key, rejected = unchanged; the as-shipped load must fail. On the code EVERY length 0..3*bs+16 plus 2^31-1, 2^32-1 and wrap-around classes is tried on all 13 key-setting entry points (Mantis: all rounds 0..11 and huge) with non-zero key bytes and a painted stack; schedule images and subsequent outputs validated by TLC against the zero-padded key, rejections must leave state and outputs unchanged.",
   note="Length dimension enumerated completely; key bytes sampled."),
 "C14": dict(cat=MC, tech=TV, ref="5 C14",
   text="MC_Life.tla (handle fields, heap, init with failure, use, cleanup; 2 objects) is checked exhaustively: a call succeeds iff the object is live, no crash, failed == dead; the as-shipped init must fail. On the code every <object phase x function x invalid-argument class> per kind and back end is executed inside valid histories; TLC validates return values and that all later outputs are what the contract predicts when the invalid call is ignored; guarded arenas detect any access outside the given buffers, snapshots detect stray writes.",
   note="Invalid classes enumerated from the property statement; values sampled."),
 "C15": dict(cat=MC, tech=TV, ref="5 C15",
   text="MC_Life.tla exhaustively: heap blocks owned = live objects (NoLeak), no invalid free (FreeOnce), inert after death, over all interleavings of init/use/cleanup/caller overwrite on 2 objects. Real random interleavings over 4 objects of mixed kinds and reuse cycles run with a wrapped allocator; every call's allocator activity is part of the trace validated by TLC; released blocks are PROT_NONE so use-after-free is a crash event.",
   note="calloc/free interposed with -Wl,--wrap on the static library."),
 "C16": dict(cat="fault_enumeration", tech="complete fault enumeration, traces validated by TLC against the TLA+ contract", ref="5 C16",
   text="Complete enumeration of: six init functions x every back end x six prior contents of the caller's object x failure of the single allocation each init makes (84 cases), each followed by cleanup and every other call in both orders, then successful re-init and use; validated by TLC against the contract (failed behaves exactly as dead, nothing leaked). MC_Life enumerates the failure branch at every init of the design model.",
   note="Each init makes one allocation (observed in every trace)."),
 "C17": dict(cat=MC, tech=TV, ref="5 C17",
   text="MC_Life.tla WipedAtFree over all interleavings; on the code the wrapped free() inspects every byte of the block as allocated before releasing it and the trace spec requires zero non-zero bytes at every cleanup, for histories that dirty every context region, per kind and back end.",
   note="The inspection happens inside free(), i.e. after the library's wipe and before release."),
})

PENDING = {}

def main():
    props = [json.loads(l) for l in open(os.path.join(HERE, "properties.jsonl"))]
    ids = [p["id"] for p in props]
    try:
        commits = subprocess.run(["git", "-C", "/repo", "log", "--format=%H %s"], stdout=subprocess.PIPE).stdout.decode().split("\n")
        hook_commits = [c.split()[0] for c in commits if "verif hook" in c]
    except Exception:
        hook_commits = []
    checks = []
    for pid in ids:
        if pid not in CLAIMS:
            continue
        c = CLAIMS[pid]
        checks.append({
            "property_id": pid,
            "quick_cmd": "./vcheck %s quick" % pid,
            "thorough_cmd": "./vcheck %s thorough" % pid,
            "evidence_file": "/verif/evidence/%s.json" % pid,
            "replay_cmd_template": "./vcheck replay {path}",
            "engine": "tlc",
            "level_claimed": {"category": c["cat"], "text": c["text"], "design_ref": "DESIGN.md section " + c["ref"]},
            "level_note": c["note"],
            "technique": c["tech"],
        })
    na = [{"property_id": pid, "reason": PENDING.get(pid, "check not built yet in this round; see DESIGN.md section 5 for the plan")}
          for pid in ids if pid not in CLAIMS]
    man = {
        "version": 1,
        "setup_cmd": "./vcheck setup",
        "hooks": {
            "guard": "SKINNY_C_VERIF",
            "enable": "CFLAGS=-DSKINNY_C_VERIF make -C src (environment variable, so the makefile's own CFLAGS += still applies); matrix builds add -DSKINNY_VERIF_64BIT=.. etc.",
            "baseline_off_cmd": "./vcheck baseline-off",
            "source_commits": hook_commits,
            "add_only": True,
        },
        "engines": [{"name": "tlc", "path": "/usr/local/bin/tlc (java -cp /opt/veriftools/tla/tla2tools.jar tlc2.TLC)",
                     "serves_properties": [c["property_id"] for c in checks],
                     "kind_free_text": "explicit-state model checker for TLA+: exhaustive checking of the design-level models in spec/MC_*.tla and trace validation of NDJSON traces recorded from the real library (spec/SkinnyTrace.tla)"}],
        "checks": checks,
        "not_applicable": na,
        "notes": "All checks rebuild the library from /repo's working tree into a scratch directory (removed afterwards). VERIF_SEED seeds every random choice. Exit 2 = check broken (never a pass).",
    }
    with open(os.path.join(HERE, "MANIFEST.json"), "w") as f:
        json.dump(man, f, indent=1)
        f.write("\n")

if __name__ == "__main__":
    main()
