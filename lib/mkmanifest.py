#!/usr/bin/env python3
"""Regenerates /verif/MANIFEST.json from the table below (single place to edit)."""
import json, os, subprocess
HERE = os.path.dirname(os.path.dirname(os.path.abspath(__file__)))

CLAIMS = {
 "C01": dict(cat="exploration", tech="trace validation (TLC) against an executable TLA+ reference cipher",
   text="Traces of the real single-block functions (all six SKINNY variants, both directions, full and reduced rounds) are validated event by event by TLC against SkinnySpec.tla, a paper-level TLA+ transcription of SKINNY gated by the published vectors. Input space is sampled with structured families (every cell value in every position at reduced rounds, walking key bytes, patterns, random); a block cipher has no interesting state graph, so TLA+ serves as executable oracle.",
   note="Trusted: TLC evaluation of SkinnySpec.tla; the six published vectors as anchor of the oracle. Sampling of 2^128..2^512 input spaces.", ref="5 C01"),
 "C02": dict(cat="exploration", tech="trace validation (TLC) against an executable TLA+ reference cipher",
   text="Traces of mantis_set_key/set_tweak/ecb_crypt/ecb_crypt_tweaked (rounds 5..8 and reduced, both modes, stored and per-call tweak) are validated by TLC against MantisSpec.tla (paper-level MANTIS, gated by the four published vectors in both directions), including the schedule image (k0,k0',k1,tweak,rounds) after every call.",
   note="Trusted: TLC evaluation of MantisSpec.tla; published vectors. Input space sampled.", ref="5 C02"),
}

PENDING = {}

def main():
    props = [json.loads(l) for l in open(os.path.join(HERE, "properties.jsonl"))]
    ids = [p["id"] for p in props]
    try:
        commits = subprocess.run(["git", "-C", "/repo", "log", "--format=%H %s"], stdout=subprocess.PIPE).stdout.decode().split("\n")
        hook_commits = [c.split()[0] for c in commits if "verif hook" in c]
    except Exception:
        hook_commits = []
    checks = []
    for pid in ids:
        if pid not in CLAIMS:
            continue
        c = CLAIMS[pid]
        checks.append({
            "property_id": pid,
            "quick_cmd": "./vcheck %s quick" % pid,
            "thorough_cmd": "./vcheck %s thorough" % pid,
            "evidence_file": "/verif/evidence/%s.json" % pid,
            "replay_cmd_template": "./vcheck replay {path}",
            "engine": "tlc",
            "level_claimed": {"category": c["cat"], "text": c["text"], "design_ref": "DESIGN.md section " + c["ref"]},
            "level_note": c["note"],
            "technique": c["tech"],
        })
    na = [{"property_id": pid, "reason": PENDING.get(pid, "check not built yet in this round; see DESIGN.md section 5 for the plan")}
          for pid in ids if pid not in CLAIMS]
    man = {
        "version": 1,
        "setup_cmd": "./vcheck setup",
        "hooks": {
            "guard": "SKINNY_C_VERIF",
            "enable": "CFLAGS=-DSKINNY_C_VERIF make -C src (environment variable, so the makefile's own CFLAGS += still applies); matrix builds add -DSKINNY_VERIF_64BIT=.. etc.",
            "baseline_off_cmd": "./vcheck baseline-off",
            "source_commits": hook_commits,
            "add_only": True,
        },
        "engines": [{"name": "tlc", "path": "/usr/local/bin/tlc (java -cp /opt/veriftools/tla/tla2tools.jar tlc2.TLC)",
                     "serves_properties": [c["property_id"] for c in checks],
                     "kind_free_text": "explicit-state model checker for TLA+: exhaustive checking of the design-level models in spec/MC_*.tla and trace validation of NDJSON traces recorded from the real library (spec/SkinnyTrace.tla)"}],
        "checks": checks,
        "not_applicable": na,
        "notes": "All checks rebuild the library from /repo's working tree into a scratch directory (removed afterwards). VERIF_SEED seeds every random choice. Exit 2 = check broken (never a pass).",
    }
    with open(os.path.join(HERE, "MANIFEST.json"), "w") as f:
        json.dump(man, f, indent=1)
        f.write("\n")

if __name__ == "__main__":
    main()
