#!/usr/bin/env python3
"""Regenerates /verif/MANIFEST.json from the table below (single place to edit)."""
import json, os, subprocess
HERE = os.path.dirname(os.path.dirname(os.path.abspath(__file__)))

CLAIMS = {
 "C01": dict(cat="exploration", tech="trace validation (TLC) against an executable TLA+ reference cipher",
   text="Traces of the real single-block functions (all six SKINNY variants, both directions, full and reduced rounds; default, 32-bit-word and byte-order-neutral builds; prefix/extension keys; a fresh process in which other uses of the library come first) are validated event by event by TLC against SkinnySpec.tla, a paper-level TLA+ transcription of SKINNY gated by the published vectors. Input space is sampled with structured families (every cell value in every position at reduced rounds, walking key bytes, patterns, random); a block cipher has no interesting state graph, so TLA+ serves as executable oracle.",
   note="Trusted: TLC evaluation of SkinnySpec.tla; the six published vectors as anchor of the oracle. Sampling of 2^128..2^512 input spaces.", ref="5 C01"),
 "C02": dict(cat="exploration", tech="trace validation (TLC) against an executable TLA+ reference cipher",
   text="Traces of mantis_set_key/set_tweak/ecb_crypt/ecb_crypt_tweaked (rounds 5..8 and reduced, both modes, stored and per-call tweak; default, 32-bit-word and byte-order-neutral builds) are validated by TLC against MantisSpec.tla (paper-level MANTIS, gated by the four published vectors in both directions), including the schedule image (k0,k0',k1,tweak,rounds) after every call.",
   note="Trusted: TLC evaluation of MantisSpec.tla; published vectors. Input space sampled.", ref="5 C02"),
}

MC = "model_checking"
TV = "TLC: exhaustive design-level model + trace validation of the real library against the TLA+ contract"
CLAIMS.update({
 "C03": dict(cat=MC, tech=TV, ref="5 C03",
   text="Mantis mode machine MC_Mode.tla is checked exhaustively by TLC in a symbolic xor algebra (all keys/tweaks at once): swap.swap = id, swap = rekey in the other mode with the tweak kept; two wrong swaps must fail. The real MantisKey_t and parallel objects are driven along random walks of that machine and every state image and output is validated by TLC against MantisSpec in the model's mode; for SKINNY the same arbitrary blocks go through encrypt and decrypt of single-block and parallel functions on every back end, each validated against SkinnySpec, so the round trip follows from conformance and Dec.Enc=id of the specification, which MC_Cipher.tla checks (Mix/InvMix and Mantis M exhaustively per 4-bit column, rounds and whole ciphers on a deterministic sample). Every edge of the mode machine's TLC state graph is executed on the real objects.",
   note="Exhaustive within MC_Mode's constants (2 keys, 3 tweaks, 7 calls); code side samples inputs. Inverse of vector S-boxes driven at reduced rounds over every cell value. The decrypt direction is also run on a request of 4 GiB + n bytes."),
 "C04": dict(cat=MC, tech=TV, ref="5 C04",
   text="MC_Tweak.tla: the incremental tweak update as the code performs it (xor remembered tweak out, new one in, remember) is checked exhaustively by TLC against 'schedule = Fresh(key, last tweak)' for all call sequences to depth 4 in a symbolic xor algebra; three wrong update rules must fail. Traces of skinny128/64_set_tweaked_key/set_tweak and the CTR tweak API (every length 1..bs, NULL, invalid lengths, random histories) are validated by TLC: after every call the logged schedule image and remembered tweak must equal the schedule SkinnySpec computes afresh from key and latest tweak (TK1 = tweak with domain constant). Every edge of the tweak machine's TLC state graph is executed on the real objects; a fresh process uses plain keys first.",
   note="Exhaustive within MC_Tweak's constants; code side: lengths enumerated, values and histories sampled."),
 "C05": dict(cat=MC, tech=TV, ref="5 C05",
   text="MC_Ctr.tla: implementation-shaped CTR models (counter lanes, keystream buffer, offset, three-way copy loop) for batch sizes 1,2,4 (8 in thorough) are checked by TLC to refine the stream-position contract (output = input xor E(c),E(c+1).. independent of call boundaries) over all call sequences of Init/SetCounter/SetKey/Encrypt(0..2B*bs+1) with radix-4 two-digit counters (all carries, wrap-around). Real streams (default counter after init, all-FF, FF-suffix carry chains, short and NULL counters, irregular cuts around block and 4/8-block batch boundaries, zero-length calls, in place) for Skinny-64/128 plain and tweaked and Mantis on every back end are validated by TLC against the real cipher in TLA+.",
   note="Design-level exhaustive within constants; code-level inputs sampled, lower back ends accepted by identity with the TLC-validated reference trace or validated themselves. One request of 4 GiB + n bytes per cipher (length beyond 32 bits) is validated by sampled key-stream blocks around the 4 GiB boundary and by the stream position afterwards; skipped with a note in the evidence if the memory is not available."),
 "C06": dict(cat=MC, tech=TV, ref="5 C06",
   text="Product of the implementation-shaped CTR models for all batch sizes driven in lock-step by TLC (all call sequences incl. key change mid-stream): outputs and denoted stream positions agree; the as-shipped transitions (lanes not staggered, batch dropped on rekey) must fail. Every CTR and parallel scenario (incl. mid-stream key/tweak/counter changes, invalid calls, unkeyed objects) is executed under each back-end cap (hook H2); the reference trace is validated by TLC against the contract, which mentions no back end, and the other traces must be identical up to the back-end name or are validated by TLC themselves. Includes an unconstrained API fuzz (any function, any argument class, any order - the contract models even the improper key/tweak combinations) and 'same value set again' scenarios.",
   note="A back end the host CPU lacks cannot be run; the cap only lowers the probe's answer."),
 "C07": dict(cat=MC, tech=TV, ref="5 C07",
   text="MC_Par.tla: batch loop + remainder loop equals the map over blocks for every byte count 0..51 (block = 2), psize 4 and 8 blocks, with and without vector table; ragged sizes rejected; dropping the remainder loop must fail. Real parallel encrypt/decrypt/crypt calls with 0..19 blocks (25 thorough), ragged sizes, in/out of place, distinct Mantis tweak per block, all key sizes/rounds/modes, reduced-round S-box sweeps, on every back end, validated block by block by TLC against the specification's single-block cipher; parallel_size against the contract's ParSize(kind, back end).",
   note="Single-block conformance itself is C01/C02. One request of 4 GiB + n bytes per cipher (all blocks equal, so every output block must equal the first) covers lengths beyond 32 bits; skipped with a note in the evidence if the memory is not available."),
 "C10": dict(cat=MC, tech=TV, ref="5 C10",
   text="MC_KeyLen.tla: word-wise model of the partial tweakey load, exhaustive over every length 0..3bs+16 and a huge class x entry point x prior state: accepted iff documented, loaded tweakey = zero-padded key, rejected = unchanged; the as-shipped load must fail. On the code EVERY length 0..3*bs+16 plus 2^31-1, 2^32-1 and wrap-around classes is tried on all 13 key-setting entry points (Mantis: all rounds 0..11 and huge) with non-zero key bytes and a painted stack; schedule images and subsequent outputs validated by TLC against the zero-padded key, rejections must leave state and outputs unchanged.",
   note="Length dimension enumerated completely; key bytes sampled."),
 "C14": dict(cat=MC, tech=TV, ref="5 C14",
   text="MC_Life.tla (handle fields, heap, init with failure, use, cleanup; 2 objects) is checked exhaustively: a call succeeds iff the object is live, no crash, failed == dead; the as-shipped init must fail. On the code every <object phase x function x invalid-argument class> per kind and back end is executed inside valid histories; TLC validates return values and that all later outputs are what the contract predicts when the invalid call is ignored; guarded arenas detect any access outside the given buffers, snapshots detect stray writes. Every edge of the abstract CTR machine (Gen_Ctr: 9 states, ~270 edges) and parallel machine (Gen_Par) dumped by TLC is executed on all kinds and back ends.",
   note="Invalid classes enumerated from the property statement; values sampled."),
 "C15": dict(cat=MC, tech=TV, ref="5 C15",
   text="MC_Life.tla exhaustively: heap blocks owned = live objects (NoLeak), no invalid free (FreeOnce), inert after death, over all interleavings of init/use/cleanup/caller overwrite on 2 objects. Real random interleavings over 4 objects of mixed kinds and reuse cycles run with a wrapped allocator; every call's allocator activity is part of the trace validated by TLC; released blocks are PROT_NONE so use-after-free is a crash event.",
   note="calloc/free interposed with -Wl,--wrap on the static library."),
 "C16": dict(cat="fault_enumeration", tech="complete fault enumeration, traces validated by TLC against the TLA+ contract", ref="5 C16",
   text="Complete enumeration of: six init functions x every back end x six prior contents of the caller's object x failure of the single allocation each init makes (84 cases), each followed by cleanup and every other call in both orders, then successful re-init and use; validated by TLC against the contract (failed behaves exactly as dead, nothing leaked). MC_Life enumerates the failure branch at every init of the design model.",
   note="Each allocation request an init makes is failed in turn (n-th request enumeration); neighbouring caller objects are watched for overruns of the failed handle."),
 "C17": dict(cat=MC, tech=TV, ref="5 C17",
   text="MC_Life.tla WipedAtFree over all interleavings; on the code the wrapped free() inspects every byte of the block as allocated before releasing it and the trace spec requires zero non-zero bytes at every cleanup, for histories that dirty every context region, per kind and back end, and with cleanup immediately after EVERY transition of the CTR and parallel machines with key-size classes (TLC state graphs Gen_Ctr_sizes / Gen_Par_sizes), so that every final context state (re-keyed long->short, buffer used up exactly, position just reset) is reached.",
   note="The inspection happens inside free(), i.e. after the library's wipe and before release. Every call event (not only cleanup) must release object state - blocks allocated by an earlier call - with zero non-zero bytes (field nzo, checked in Frame of SkinnyTrace)."),
})

CLAIMS.update({
 "C08": dict(cat="exploration", tech="TLA+ footprint contract (FootTrace.tla) decided by TLC on machine-level traces from valgrind/lackey", ref="5 C08",
   text="The complete sequence of instruction addresses and load/store addresses of every public call (cut at marker functions) is recorded from the shipped binary under valgrind/lackey for several secret assignments (all-0xFF, all-zero, seeded random) with identical public parameters, on every back end; FootTrace.tla, checked by TLC, accepts iff the footprint digest is a function of the call's public view. TLA+ contributes the precise definition of 'public' and the function-ness check; the recorder does the heavy lifting.",
   note="Secret sampling; instruction/address level only (no micro-architectural effects); valgrind's CPUID = host's. The harness keeps its own allocation pattern and path lengths data-independent so that address traces are comparable."),
 "C09": dict(cat=MC, tech=TV, ref="5 C09",
   text="MC_Mem.tla: flat byte arena, every placement/overlap of input and output windows for single-block calls and exact aliasing for bulk calls: result = F(pre-state input) and frame condition; a store-as-you-go variant must fail. On the code every pointer argument is placed flush against PROT_NONE pages (end and start) and at alignments 0..31 in canary arenas that are compared after each call; every overlap offset for every single-block function; every accepted key/tweak/counter length at the guard; bulk calls 0..17 blocks in and out of place; every back end plus the byte-wise build; all outputs validated by TLC against the alignment-free specification.",
   note="Reads that stay inside mapped unguarded memory are invisible here (C08's address traces see them)."),
 "C11": dict(cat="exploration", tech="trace identity under memory/compiler perturbation against a TLC-validated deterministic contract", ref="5 C11",
   text="The contract (SkinnyTrace/Contract) is deterministic (MC_Det checks the position machine has one successor per call), so any dependence on uninitialised memory that reaches an observable shows as a trace that differs from the validated reference. The scenario sets of C01-C07, C10 (every in-between key length), C14 run with painted stacks (0x00/0xFF/0xA5/ramp), pre-filled handles, fresh/poisoned heap, in separate processes, under gcc -O0/-O3 and clang -O2 (thorough: more); all traces must be identical to the reference, a sample of which TLC validates. The guard-off library must have no writable static storage (event validated by the trace spec).",
   note="Cannot show absence of an uninitialised read whose value never reaches an observable."),
 "C12": dict(cat="exploration", tech="trace identity across a build matrix (hook H1) against a TLC-validated reference", ref="5 C12",
   text="Every compile-time path is built through hook H1 ({64/32-bit} x {unaligned on/off} x {LE+V128+V256, LE+V128, LE, neutral} x {gcc, clang} x {-O0..-O3}: 128 builds thorough, 12-build pairwise cover quick) and runs the scenario sets of C01-C07, C10, C14 including reduced-round S-box sweeps; every execution must equal the shipped build's trace up to the back-end name; differing executions are validated by TLC to locate the fault.",
   note="Big-endian and NEON hosts cannot be run; the neutral scalar path is exercised on this little-endian host as the property scopes it."),
 "C13": dict(cat=MC, tech=TV, ref="5 C13",
   text="MC_Probe.tla: CPU models x build configurations x caps x arbitrary sub-leaf register contents, probes and cascade as coded: widest supported back end, same every time, never beyond the CPU, psize = f(back end); the as-shipped probe (sub-leaf not set) must fail. On the code every init of all six kinds is observed in many calling contexts (garbage in caller-saved registers, painted stack, fresh processes whose very first library call is each init in turn, hook-free build) and compared by TLC with Widest(env) from the harness's own CPUID/XGETBV reading.",
   note="Builds observed: all back ends, no 256-bit, no 128-bit (256-bit only), no SIMD. Only this host's CPU is observable; lesser CPUs are emulated downward by hook H2. OS-YMM support is an explicit environment assumption of the model."),
 "C18": dict(cat=MC, tech=TV, ref="5 C18",
   text="MC_Threads.tla: all interleavings of 3 threads x 2 calls at footprint-step granularity: no write outside own objects, results = sequential; a static scratch buffer and an unsynchronised cached probe must fail. On the code 8-16 threads run the C01-C07/C10/C14 scenario sets concurrently on distinct objects (each per-thread trace must equal the TLC-validated sequential trace), 12-16 threads share read-only key schedules and parallel objects placed in PROT_READ memory (traces validated by TLC, any write is a crash event), and the guard-off library is required to have 0 bytes of .data/.bss.",
   note="Real interleavings are sampled by repetition; happens-before race detection is not attempted (TSan/helgrind are a different technique family)."),
 "C19": dict(cat=MC, tech="traces of the second implementation validated by TLC against the same TLA+ contract (ArduinoTrace.tla)", ref="5 C19",
   text="The Arduino classes (11 block ciphers, CTR<T>) are compiled unmodified for the host and driven by the same scenario language; their traces (schedule images via opened-up private members, remembered tweaks, outputs) are validated by TLC against the same contract as the C library plus the Arduino-only clear() action, and additionally compared execution by execution with the C library's trace. Design models shared with the C code (MC_Tweak, MC_Mode, MC_Ctr with batch 1) are re-run.",
   note="AVR inline assembly cannot be executed on the host. API used as the Cipher interface prescribes (setKey, setIV, then data; exact key sizes)."),
 "C20": dict(cat="exploration", tech="tool runs validated by TLC against ToolsTrace.tla; MC_Tools design model", ref="5 C20",
   text="MC_Tools.tla: option classifier = documented conditions over abstract argv; chunked loops = whole-file processing (a chunk size that is not a block multiple must fail). The three binaries built from the tree are run for both block sizes, every legal key length, counters/tweaks of lengths 1..bs with carries or absent, -d, file lengths around block and 1024-byte chunk edges; exit status, output existence and every output byte are validated by TLC against SkinnySpec (CTR stream law, ECB map, per-block tweak increment); round trips; 12 classes of invalid options per tool must exit non-zero without creating the output file.",
   note="Short reads from fread() are not provoked. The hex syntax of -k/-c/-t (separators, single-digit bytes, case) is defined in ToolsTrace (ParseHex) and exercised; output files that exist beforehand (longer/shorter/equal/empty) are covered."),
})

PENDING = {}

def main():
    props = [json.loads(l) for l in open(os.path.join(HERE, "properties.jsonl"))]
    ids = [p["id"] for p in props]
    try:
        commits = subprocess.run(["git", "-C", "/repo", "log", "--format=%H %s"], stdout=subprocess.PIPE).stdout.decode().split("\n")
        hook_commits = [c.split()[0] for c in commits if "verif hook" in c]
    except Exception:
        hook_commits = []
    checks = []
    for pid in ids:
        if pid not in CLAIMS:
            continue
        c = CLAIMS[pid]
        checks.append({
            "property_id": pid,
            "quick_cmd": "./vcheck %s quick" % pid,
            "thorough_cmd": "./vcheck %s thorough" % pid,
            "evidence_file": "/verif/evidence/%s.json" % pid,
            "replay_cmd_template": "./vcheck replay {path}",
            "engine": "tlc",
            "level_claimed": {"category": c["cat"], "text": c["text"], "design_ref": "DESIGN.md section " + c["ref"]},
            "level_note": c["note"],
            "technique": c["tech"],
        })
    na = [{"property_id": pid, "reason": PENDING.get(pid, "check not built yet in this round; see DESIGN.md section 5 for the plan")}
          for pid in ids if pid not in CLAIMS]
    man = {
        "version": 1,
        "setup_cmd": "./vcheck setup",
        "hooks": {
            "guard": "SKINNY_C_VERIF",
            "enable": "CFLAGS=-DSKINNY_C_VERIF make -C src (environment variable, so the makefile's own CFLAGS += still applies); matrix builds add -DSKINNY_VERIF_64BIT=.. etc.",
            "baseline_off_cmd": "./vcheck baseline-off",
            "source_commits": hook_commits,
            "add_only": True,
        },
        "engines": [{"name": "tlc", "path": "/usr/local/bin/tlc (java -cp /opt/veriftools/tla/tla2tools.jar tlc2.TLC)",
                     "serves_properties": [c["property_id"] for c in checks],
                     "kind_free_text": "explicit-state model checker for TLA+: exhaustive checking of the design-level models in spec/MC_*.tla and trace validation of NDJSON traces recorded from the real library (spec/SkinnyTrace.tla)"}],
        "checks": checks,
        "not_applicable": na,
        "notes": "All checks rebuild the library from /repo's working tree into a scratch directory (removed afterwards). VERIF_SEED seeds every random choice. Exit 2 = check broken (never a pass).",
    }
    with open(os.path.join(HERE, "MANIFEST.json"), "w") as f:
        json.dump(man, f, indent=1)
        f.write("\n")

if __name__ == "__main__":
    main()
