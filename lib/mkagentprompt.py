#!/usr/bin/env python3
"""Write the prompt for a seeding sub-agent: property text + its own worktree, plus one line per seed
already collected for that property (so that the new ones differ in kind).  Nothing else from /verif.
usage: mkagentprompt.py <Cnn> <worktree> > prompt.txt"""
import json, os, sys, glob

pid, wt = sys.argv[1], sys.argv[2]
prop = None
for l in open("/verif/properties.jsonl"):
    d = json.loads(l)
    if d["id"] == pid:
        prop = d
text = "Title: %s\n\nStatement: %s\n\nQuantified over: %s\n" % (
    prop["title"], prop["statement"], prop["quantifier"]["text"])
prior = []
for d in sorted(glob.glob("/verif/seeded/%s-*" % pid)):
    n = os.path.join(d, "notes.md")
    if os.path.exists(n):
        lines = [x.strip() for x in open(n).read().split("\n") if x.strip()]
        prior.append("- " + "  ".join(lines[:2])[:260])
HOOKS = """Note: src/skinny-internal.[ch] contain two test hooks guarded by -DSKINNY_C_VERIF (compile-time overrides of the platform switches SKINNY_VERIF_64BIT / _UNALIGNED / _LITTLE_ENDIAN / _VEC128_MATH / _VEC256_MATH, and a global `int _skinny_verif_backend_cap` — 0 = generic back end only, 1 = up to 128-bit SIMD, 2 = no cap — consulted by the CPU probes). The default build ignores them; a demo may compile its own copy of the library objects with -DSKINNY_C_VERIF (e.g. `CFLAGS=-DSKINNY_C_VERIF make -C WORKTREE/src clean all` — pass it via the environment, not on the make command line) to pin a back end or a code path. Leave the hooks themselves alone. A demo may also interpose calloc/free (e.g. `-Wl,--wrap=calloc,--wrap=free` against the static library) if the property is about memory. Do not run conda or modify files in /root.

IMPORTANT: %d changes for this property have already been collected by other people; yours must be DIFFERENT in kind from all of these and should be SUBTLE (hard to hit by random or structured testing: think of rare input classes, specific relations between successive argument values, specific call orders, repeated or unchanged values, zero-length or maximal-length requests (including lengths of 4 GiB and more), a specific back end together with a specific length or alignment, a specific compile-time path together with a back end, or state left over from an earlier call, an earlier object or an earlier failure):
%s
""" % (len(prior), "\n".join(prior))
t = open("/verif/lib/agent_prompt.txt").read()
t = t.replace("The semantic property that users of the library rely on:", HOOKS + "\nThe semantic property that users of the library rely on:")
t = t.replace("PROPERTY_TEXT", text).replace("WORKTREE", wt)
sys.stdout.write(t)
