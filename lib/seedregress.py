#!/usr/bin/env python3
"""seedregress.py [jobs] [seed-id ...] -- re-run the kept seeded changes against the CURRENT machinery.

For every /verif/seeded/<id>/patch.diff: apply it to a scratch copy of /repo, run the quick check of the
seed's own property (VERIF_REPO, VERIF_NOEVIDENCE) and require exit 1 with a VIOLATION line.  Prints one
line per seed and a summary; writes /verif/seeded/REGRESSION.json.  /repo is never modified."""
import json, os, re, shutil, subprocess, sys, tempfile, time
from concurrent.futures import ThreadPoolExecutor

VERIF = os.path.dirname(os.path.dirname(os.path.abspath(__file__)))


def sh(cmd, timeout=3600):
    p = subprocess.run(cmd, shell=True, stdout=subprocess.PIPE, stderr=subprocess.STDOUT, timeout=timeout)
    return p.returncode, p.stdout.decode("utf-8", "replace")


def one(sid):
    d = os.path.join(VERIF, "seeded", sid)
    prop = sid.split("-")[0]
    scratch = tempfile.mkdtemp(prefix="seedreg-")
    try:
        sh("rsync -a --exclude .git --exclude '*.o' --exclude '*.a' /repo/ %s/" % scratch)
        rc, out = sh("cd %s && patch -p1 --no-backup-if-mismatch < %s/patch.diff" % (scratch, d))
        if rc != 0:
            return sid, "patch does not apply", 0
        t0 = time.time()
        rc, out = sh("cd %s && VERIF_REPO=%s VERIF_NOEVIDENCE=1 ./vcheck %s quick" % (VERIF, scratch, prop))
        v = re.findall(r"VIOLATION property=\S+ replay=\S+\n\s+(.{0,100})", out)
        return sid, ("caught: " + v[0]) if (rc == 1 and v) else "NOT CAUGHT (exit %d)" % rc, round(time.time() - t0)
    finally:
        shutil.rmtree(scratch, ignore_errors=True)


def main():
    jobs = int(sys.argv[1]) if len(sys.argv) > 1 else 3
    ids = sys.argv[2:] or sorted(x for x in os.listdir(os.path.join(VERIF, "seeded"))
                                 if os.path.exists(os.path.join(VERIF, "seeded", x, "patch.diff")))
    res = {}
    with ThreadPoolExecutor(max_workers=jobs) as ex:
        for sid, verdict, secs in ex.map(one, ids):
            res[sid] = verdict
            print("%-7s %4ss %s" % (sid, secs, verdict[:140]), flush=True)
    missed = [k for k, v in res.items() if not v.startswith("caught")]
    print("seeds: %d, caught by their own property's check: %d, not: %s" % (len(res), len(res) - len(missed), missed))
    if not sys.argv[2:]:
        json.dump(res, open(os.path.join(VERIF, "seeded", "REGRESSION.json"), "w"), indent=1, sort_keys=True)
    shutil.rmtree(os.path.join(VERIF, "replays"), ignore_errors=True)
    return 1 if missed else 0


if __name__ == "__main__":
    sys.exit(main())
