#!/usr/bin/env python3
"""seedtest.py <worktree> <n> <seed-id> <property> [checks...]

Confirms a seeded change delivered by a sub-agent in <worktree>/_seed/<n>/ and
runs our checks against it:
  1. in the scratch worktree: unmodified -> tests 30/30, demo PASS; with the
     patch -> builds, tests 30/30, demo FAIL; reverted afterwards
  2. copies patch.diff, demo.c, build.sh, notes.md to /verif/seeded/<seed-id>/
  3. applies the patch to a scratch copy of /repo and runs the given checks
     (default: the property's own quick check) with VERIF_REPO pointing at it
  4. writes /verif/seeded/<seed-id>/meta.json
Never commits anything in /repo.
"""
import json, os, re, shutil, subprocess, sys, time

VERIF = os.path.dirname(os.path.dirname(os.path.abspath(__file__)))


def run(cmd, cwd=None, timeout=1800):
    p = subprocess.run(cmd, cwd=cwd, shell=True, stdout=subprocess.PIPE, stderr=subprocess.STDOUT, timeout=timeout)
    return p.returncode, p.stdout.decode("utf-8", "replace")


def suite(wt):
    rc, out = run("make -C %s clean all >/dev/null 2>&1; cd %s/test && ./test-skinny" % (wt, wt))
    return len(re.findall(r": ok\s*$", out, re.M)), rc


def demo(wt, n):
    rc, out = run("cd %s && sh _seed/%s/build.sh" % (wt, n))
    return rc, out[-400:]


def main():
    wt, n, sid, prop = sys.argv[1:5]
    checks = sys.argv[5:] or [prop]
    sd = os.path.join(wt, "_seed", n)
    dst = os.path.join(VERIF, "seeded", sid)
    os.makedirs(dst, exist_ok=True)
    for f in ("patch.diff", "demo.c", "demo.cpp", "demo.sh", "build.sh", "notes.md"):
        if os.path.exists(os.path.join(sd, f)):
            shutil.copy(os.path.join(sd, f), dst)
    meta = {"seed_id": sid, "property": prop, "source": "independent sub-agent given only the property text",
            "confirmed": {}, "checks": {}}
    run("git -C %s checkout -- ." % wt)
    ok0, _ = suite(wt)
    rc0, o0 = demo(wt, n)
    rca, oa = run("git -C %s apply %s/patch.diff" % (wt, sd))
    ok1, _ = suite(wt)
    rc1, o1 = demo(wt, n)
    run("git -C %s checkout -- ." % wt)
    meta["confirmed"] = {"unmodified_tests_ok": ok0, "unmodified_demo_rc": rc0,
                         "patch_applies": rca == 0, "patched_tests_ok": ok1, "patched_demo_rc": rc1,
                         "demo_tail_patched": o1[-200:]}
    good = ok0 == 30 and rc0 == 0 and rca == 0 and ok1 == 30 and rc1 != 0
    meta["confirmed"]["valid_seed"] = good
    print("seed %s: unmodified %d/30 demo rc=%d | patched %d/30 demo rc=%d -> %s"
          % (sid, ok0, rc0, ok1, rc1, "VALID" if good else "INVALID"))
    if good:
        # the checks run against a scratch copy of /repo with the patch applied (VERIF_REPO), so that
        # /repo itself is never modified and other runs are not disturbed
        import tempfile
        scratch = tempfile.mkdtemp(prefix="seedrepo-")
        run("rsync -a --exclude .git --exclude '*.o' --exclude '*.a' /repo/ %s/" % scratch)
        rc, out = run("cd %s && patch -p1 --no-backup-if-mismatch < %s/patch.diff" % (scratch, dst))
        if rc != 0:
            print("patch does not apply to a copy of /repo:", out[-300:])
            meta["checks"]["apply_to_repo"] = out[-300:]
        else:
            try:
                for c in checks:
                    t0 = time.time()
                    rc, out = run("cd %s && VERIF_REPO=%s VERIF_NOEVIDENCE=1 ./vcheck %s quick" % (VERIF, scratch, c))
                    viol = re.findall(r"VIOLATION property=\S+ replay=\S+\n\s+(.{0,160})", out)
                    meta["checks"][c] = {"exit": rc, "violations": len(viol), "first": viol[0] if viol else "",
                                         "wall_s": round(time.time() - t0, 1)}
                    print("  check %s: exit %d, %d violation line(s) %s" % (c, rc, len(viol), ("| " + viol[0][:140]) if viol else ""))
            finally:
                shutil.rmtree(os.path.join(VERIF, "replays"), ignore_errors=True)
        shutil.rmtree(scratch, ignore_errors=True)
    notes = ""
    if os.path.exists(os.path.join(dst, "notes.md")):
        notes = open(os.path.join(dst, "notes.md")).read()
    meta["needs_to_manifest"] = notes[:1500]
    meta["what_was_run"] = "lib/seedtest.py %s" % " ".join(sys.argv[1:])
    meta["caught_by"] = [c for c, v in meta["checks"].items() if isinstance(v, dict) and v.get("exit") == 1]
    with open(os.path.join(dst, "meta.json"), "w") as f:
        json.dump(meta, f, indent=1)


if __name__ == "__main__":
    main()
