"""Core plumbing for vcheck: scratch dirs, builds from /repo's working tree,
driver runs, TLC runs (model checking and trace validation), evidence files.
Python 3 standard library only."""
import json, os, re, shutil, subprocess, sys, tempfile, time, hashlib, random
from concurrent.futures import ThreadPoolExecutor

VERIF = os.path.dirname(os.path.dirname(os.path.abspath(__file__)))
REPO = os.environ.get("VERIF_REPO", "/repo")
SPEC = os.path.join(VERIF, "spec")
HARNESS = os.path.join(VERIF, "harness")
TLA_CP = "/opt/veriftools/tla/tla2tools.jar:/opt/veriftools/tla/CommunityModules-deps.jar"
NCPU = min(16, os.cpu_count() or 4)
GUARD = "SKINNY_C_VERIF"


class Broken(Exception):
    """The machinery itself failed (build error, TLC error, time-out): the
    check is broken, which is neither a pass nor a violation."""


import threading
_SUB_LOCK = threading.Lock()


class Work:
    """A scratch directory outside /repo and /verif, removed on exit."""
    def __init__(self, tag):
        self.dir = tempfile.mkdtemp(prefix="vcheck-%s-" % tag)
        self.n = 0
    def sub(self, name):
        with _SUB_LOCK:
            self.n += 1
            k = self.n
        p = os.path.join(self.dir, "%s-%d" % (name, k))
        os.makedirs(p)
        return p
    def close(self):
        shutil.rmtree(self.dir, ignore_errors=True)
    def __enter__(self):
        return self
    def __exit__(self, *a):
        self.close()


def sh(cmd, cwd=None, env=None, timeout=900, check=True, inp=None):
    e = dict(os.environ)
    if env:
        e.update(env)
    p = subprocess.run(cmd, cwd=cwd, env=e, shell=isinstance(cmd, str), input=inp,
                       stdout=subprocess.PIPE, stderr=subprocess.STDOUT, timeout=timeout)
    out = p.stdout.decode("utf-8", "replace")
    if check and p.returncode != 0:
        raise Broken("command failed (%d): %s\n%s" % (p.returncode, cmd, out[-3000:]))
    return p.returncode, out


# ---------------------------------------------------------------- builds

def copy_tree(dst):
    """Copy /repo's current working tree (no .git, no build products)."""
    sh(["rsync", "-a", "--exclude", ".git", "--exclude", "*.o", "--exclude", "*.a",
        "--exclude", "/test/test-skinny", "--exclude", "/test/test-perf",
        "--exclude", "/examples/skinny-ctr", "--exclude", "/examples/skinny-ecb",
        "--exclude", "/examples/skinny-tweak", "--exclude", "/_build",
        REPO.rstrip("/") + "/", dst + "/"])


class Build:
    def __init__(self, root, name, cfg):
        self.root, self.name, self.cfg = root, name, cfg
        self.drv = os.path.join(root, "drv")
        self.lib = os.path.join(root, "src", "libskinny.a")


def build(work, name="default", cc="gcc", opt="-O3", defs=(), hooks=True,
          built128=1, built256=1, drv=True, tools=False, extra_drv=()):
    """Build libskinny.a from the current working tree with the repository's
    own makefile, then the driver against it."""
    root = work.sub("build-" + name)
    copy_tree(root)
    cflags = []
    if hooks:
        cflags.append("-D" + GUARD)
    cflags += ["-D" + d for d in defs]
    env = {"CFLAGS": " ".join(cflags)}
    common = "%s -Wall -Wextra" % opt
    sh(["make", "-C", os.path.join(root, "src"), "-j%d" % NCPU, "CC=" + cc,
        "COMMON_CFLAGS=" + common], env=env)
    if tools:
        sh(["make", "-C", os.path.join(root, "examples"), "-j4", "CC=" + cc,
            "COMMON_CFLAGS=" + common], env=env)
    b = Build(root, name, dict(cc=cc, opt=opt, defs=list(defs), hooks=hooks))
    if drv:
        cmd = ["gcc", "-O1", "-g", "-Wall", "-I" + os.path.join(root, "include"),
               "-I" + os.path.join(root, "src"),
               "-DDRV_BUILT128=%d" % built128, "-DDRV_BUILT256=%d" % built256]
        if hooks:
            cmd.append("-D" + GUARD)
        cmd += list(extra_drv)
        cmd += [os.path.join(HARNESS, "drv.c"), b.lib,
                "-Wl,--wrap=calloc,--wrap=free,--wrap=malloc,--wrap=realloc,--wrap=aligned_alloc,--wrap=posix_memalign", "-lpthread", "-o", b.drv]
        sh(cmd)
    return b


def run_drv(b, scenario_text, timeout=300):
    """Run the driver on a scenario; returns the list of NDJSON lines."""
    p = subprocess.run([b.drv], input=scenario_text.encode(), stdout=subprocess.PIPE,
                       stderr=subprocess.PIPE, timeout=timeout)
    lines = [x for x in p.stdout.decode().split("\n") if x]
    if p.returncode != 0:
        # the driver itself died (outside a library call, or stack smashed):
        # that is an event the specification has no action for
        lines.append(json.dumps({"e": "crash", "op": "driver", "sig": p.returncode,
                                 "stderr": p.stderr.decode("utf-8", "replace")[-300:]}))
    return lines


# ---------------------------------------------------------------- TLC

JAVA = ["java", "-XX:+UseSerialGC"]


def _tlc_cmd(scratch, heap, workers, extra):
    return JAVA + ["-Xmx" + heap, "-Djava.io.tmpdir=" + os.path.join(scratch, "jtmp"),
                   "-cp", TLA_CP, "tlc2.TLC", "-workers", str(workers),
                   "-metadir", os.path.join(scratch, "meta"), "-noGenerateSpecTE"] + extra


def _spec_scratch(work, tag):
    scratch = work.sub(tag)
    os.makedirs(os.path.join(scratch, "jtmp"))
    for f in os.listdir(SPEC):
        if f.endswith(".tla") or f.endswith(".cfg"):
            shutil.copy(os.path.join(SPEC, f), scratch)
    return scratch


def _tla_tuples(out, marker):
    """Extract printed TLA+ tuples << "marker", ... >> (possibly nested, multi-line)."""
    res, pos = [], 0
    while True:
        i = out.find('"%s"' % marker, pos)
        if i < 0:
            break
        st = out.rfind("<<", 0, i)
        depth, j = 0, st
        while j < len(out):
            if out.startswith("<<", j):
                depth += 1; j += 2
            elif out.startswith(">>", j):
                depth -= 1; j += 2
                if depth == 0:
                    break
            else:
                j += 1
        res.append(re.sub(r"\s+", " ", out[st:j]))
        pos = j
    return res


class TraceResult:
    def __init__(self, accepted, consumed, total, messages, raw):
        self.accepted, self.consumed, self.total = accepted, consumed, total
        self.messages, self.raw = messages, raw


def validate_trace(work, lines, module="SkinnyTrace", timeout=1500, heap="2g"):
    """Validate one NDJSON trace (list of lines) with TLC.  Returns TraceResult.
    Raises Broken when TLC itself fails."""
    scratch = _spec_scratch(work, "tv")
    tpath = os.path.join(scratch, "trace.ndjson")
    with open(tpath, "w") as f:
        f.write("\n".join(lines) + "\n")
    cmd = _tlc_cmd(scratch, heap, 1, ["-config", module + ".cfg", module + ".tla"])
    try:
        rc, out = sh(cmd, cwd=scratch, env={"TRACE": tpath}, timeout=timeout, check=False)
    except subprocess.TimeoutExpired:
        raise Broken("TLC trace validation timed out")
    total = len(lines)
    msgs = _tla_tuples(out, "MISMATCH at line")
    rej = re.search(r'<<"REJECTED: lines consumed", (\d+), "of", (\d+)>>', out)
    if "Model checking completed. No error has been found." in out and not rej:
        return TraceResult(True, total, total, [], out)
    if rej:
        return TraceResult(False, int(rej.group(1)), total, msgs, out)
    raise Broken("TLC failed on trace (exit %d):\n%s" % (rc, out[-4000:]))


def split_executions(lines):
    """Split a trace into its header (before the first reset) and executions."""
    head, execs, cur = [], [], None
    for ln in lines:
        if ln.startswith('{"e":"reset"'):
            if cur is not None:
                execs.append(cur)
            cur = [ln]
        elif cur is None:
            head.append(ln)
        else:
            cur.append(ln)
    if cur is not None:
        execs.append(cur)
    return head, execs


def validate_parallel(work, lines, jobs=NCPU, **kw):
    """Validate a long trace by cutting it at 'reset' events into up to `jobs`
    chunks (each gets the header) validated by separate TLC processes.
    Returns a list of (chunk_lines, TraceResult)."""
    head, execs = split_executions(lines)
    if not execs:
        return [(lines, validate_trace(work, lines, **kw))]
    # balance by line length (a proxy for cipher work)
    jobs = max(1, min(jobs, len(execs)))
    bins = [[] for _ in range(jobs)]
    loads = [0] * jobs
    for ex in sorted(execs, key=lambda e: -sum(len(x) for x in e)):
        i = loads.index(min(loads))
        bins[i].append(ex)
        loads[i] += sum(len(x) for x in ex)
    chunks = [head + [ln for ex in b for ln in ex] for b in bins if b]
    with ThreadPoolExecutor(max_workers=jobs) as tp:
        res = list(tp.map(lambda c: validate_trace(work, c, **kw), chunks))
    return list(zip(chunks, res))


class MCResult:
    def __init__(self, ok, states, distinct, out, coverage, violated):
        self.ok, self.states, self.distinct, self.out = ok, states, distinct, out
        self.coverage, self.violated = coverage, violated


def model_check(work, module, cfg=None, workers=NCPU, heap="6g", timeout=1700, coverage=True,
                extra=()):
    """Run TLC exhaustively on a design-level model.  ok = completed with no
    error; violated = name of the violated invariant/property if any."""
    scratch = _spec_scratch(work, "mc")
    args = ["-config", (cfg or module) + ".cfg"]
    if coverage:
        args += ["-coverage", "1"]
    args += list(extra) + [module + ".tla"]
    cmd = _tlc_cmd(scratch, heap, workers, args)
    try:
        rc, out = sh(cmd, cwd=scratch, timeout=timeout, check=False)
    except subprocess.TimeoutExpired:
        raise Broken("TLC model checking of %s timed out" % module)
    m = re.search(r"(\d+) states generated, (\d+) distinct states found", out)
    states = int(m.group(1)) if m else 0
    distinct = int(m.group(2)) if m else 0
    cov = {}
    for mm in re.finditer(r"<(\w+) line \d+, col \d+ to line \d+, col \d+ of module (\w+)>: (\d+):(\d+)", out):
        cov[mm.group(1)] = (int(mm.group(3)), int(mm.group(4)))
    ok = "Model checking completed. No error has been found." in out
    violated = None
    mv = re.search(r"Error: Invariant (\w+) is violated", out) or \
        re.search(r"Error: Action property (\w+) is violated", out) or \
        re.search(r"Error: Temporal properties were violated", out) or \
        re.search(r"Error: Deadlock reached", out)
    if mv:
        violated = mv.group(1) if mv.groups() else mv.group(0)
    if not ok and violated is None:
        raise Broken("TLC failed on %s (exit %d):\n%s" % (module, rc, out[-4000:]))
    return MCResult(ok, states, distinct, out, cov, violated)


# ---------------------------------------------------------------- evidence

def write_evidence(pid, tier, seed, level, coverage, assumptions, wall, violations):
    if os.environ.get("VERIF_NOEVIDENCE"):
        return        # runs against a seeded / mutated copy of the tree must not overwrite the evidence
    os.makedirs(os.path.join(VERIF, "evidence"), exist_ok=True)
    ev = {"property_id": pid, "tier": tier, "seed": int(seed), "level": level,
          "coverage": coverage, "assumptions": assumptions, "wall_s": round(wall, 2),
          "violations": int(violations)}
    with open(os.path.join(VERIF, "evidence", pid + ".json"), "w") as f:
        json.dump(ev, f, indent=1)
        f.write("\n")


def load_known():
    p = os.path.join(VERIF, "known_findings.json")
    if not os.path.exists(p):
        return {"open": [], "fixed": []}
    return json.load(open(p))


def save_replay(pid, seed, idx, lines, note):
    d = os.path.join(VERIF, "replays", pid)
    os.makedirs(d, exist_ok=True)
    p = os.path.join(d, "%s-%d.ndjson" % (seed, idx))
    with open(p, "w") as f:
        f.write("\n".join(lines) + "\n")
    with open(p + ".note", "w") as f:
        f.write(note + "\n")
    return p


def hx(b):
    return bytes(b).hex() if len(b) else "-"


# ---------------------------------------------------------------- state graphs (spec -> impl)

def dump_graph(work, module, cfg=None):
    """Run TLC with -dump dot,actionlabels; returns (init_node, edges) with
    edges = list of (src, dst, label)."""
    scratch = _spec_scratch(work, "graph")
    gpath = os.path.join(scratch, "graph")
    cmd = _tlc_cmd(scratch, "2g", 1, ["-config", (cfg or module) + ".cfg", "-dump", "dot,actionlabels", gpath,
                                      module + ".tla"])
    rc, out = sh(cmd, cwd=scratch, timeout=600, check=False)
    if "Model checking completed. No error has been found." not in out:
        raise Broken("graph dump of %s failed:\n%s" % (module, out[-2000:]))
    txt = open(gpath + ".dot").read()
    edges, nodes, init = [], [], None
    for m in re.finditer(r'^(-?\d+) -> (-?\d+) \[label="((?:[^"\\]|\\.)*)"', txt, re.M):
        edges.append((m.group(1), m.group(2), m.group(3).replace('\\"', '"')))
    for m in re.finditer(r'^(-?\d+) \[label="((?:[^"\\]|\\.)*)"(.*)$', txt, re.M):
        nodes.append(m.group(1))
        if "style = filled" in m.group(3) and init is None:
            init = m.group(1)
    return init, edges, len(set(nodes))


def edge_cover(init, edges):
    """Call sequences (lists of labels) covering every edge: shortest path from
    the initial state to the edge's source, then the edge."""
    from collections import deque
    adj = {}
    for s, d, l in edges:
        adj.setdefault(s, []).append((d, l))
    path = {init: []}
    dq = deque([init])
    while dq:
        u = dq.popleft()
        for d, l in adj.get(u, []):
            if d not in path:
                path[d] = path[u] + [l]
                dq.append(d)
    seqs, seen = [], set()
    for s, d, l in edges:
        if (s, d, l) in seen or s not in path:
            continue
        seen.add((s, d, l))
        seqs.append(path[s] + [l])
    return seqs
