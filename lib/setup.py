"""setup: parse every specification with SANY and byte-compile the orchestrator.
baseline-off: build /repo's working tree WITHOUT the guard and run its test suite."""
import os, re, sys, compileall
from core import *


def main():
    ok = True
    with Work("setup") as w:
        scratch = w.sub("sany")
        for f in os.listdir(SPEC):
            if f.endswith(".tla") or f.endswith(".cfg"):
                shutil.copy(os.path.join(SPEC, f), scratch)
        mods = sorted(f for f in os.listdir(scratch) if f.endswith(".tla"))
        for m in mods:
            rc, out = sh(["java", "-Djava.io.tmpdir=" + scratch, "-cp", TLA_CP, "tla2sany.SANY", m],
                         cwd=scratch, check=False)
            bad = rc != 0 or "Fatal errors" in out or "*** Errors" in out or "Could not parse" in out
            print("SANY %-22s %s" % (m, "FAILED" if bad else "ok"))
            if bad:
                print(out[-1500:])
                ok = False
    compileall.compile_dir(os.path.join(VERIF, "lib"), quiet=1)
    return 0 if ok else 2


def baseline_off():
    with Work("baseline") as w:
        root = w.sub("tree")
        copy_tree(root)
        sh(["make", "-C", root, "-j8", "all"], env={"CFLAGS": ""})
        rc, out = sh([os.path.join(root, "test", "test-skinny")], cwd=os.path.join(root, "test"), check=False)
        print(out)
        n_ok = len(re.findall(r": ok\s*$", out, re.M))
        n_bad = len(re.findall(r": (failed|FAILED)", out))
        print("baseline-off: %d ok, %d failed, exit %d" % (n_ok, n_bad, rc))
        return 0 if (rc == 0 and n_ok == 30 and n_bad == 0) else 1
