"""replay: re-validate a saved violation trace with TLC; if the scenario that
produced it was saved next to it, re-execute it on /repo's current working tree
and validate the fresh trace too."""
import os, sys
from core import *


def main(path):
    lines = [x for x in open(path).read().split("\n") if x]
    module = "SkinnyTrace"
    with Work("replay") as w:
        r = validate_trace(w, lines, module=module)
        print("saved trace: %s (%d of %d lines consumed)" % ("accepted" if r.accepted else "REJECTED", r.consumed, r.total))
        for m in r.messages:
            print("  " + m[:1200])
        if not r.accepted and r.consumed < len(lines):
            print("  rejected event: " + lines[r.consumed][:600])
        scn = path + ".scn"
        rc = 0 if r.accepted else 1
        if os.path.exists(scn):
            b = build(w)
            fresh = run_drv(b, open(scn).read())
            r2 = validate_trace(w, fresh, module=module)
            print("re-executed on current tree: %s (%d of %d lines consumed)"
                  % ("accepted" if r2.accepted else "REJECTED", r2.consumed, r2.total))
            for m in r2.messages:
                print("  " + m[:1200])
            rc = 0 if r2.accepted else 1
        return rc
