"""replay: re-validate a saved violation trace with TLC (with the trace
specification of the property it belongs to); if the scenario that produced it
was saved next to it, re-execute it on /repo's current working tree and
validate the fresh trace too."""
import os, sys
from core import *


def module_for(path):
    prop = os.path.basename(os.path.dirname(os.path.abspath(path)))
    return {"C19": "ArduinoTrace", "C20": "ToolsTrace", "C08": "FootTrace"}.get(prop, "SkinnyTrace"), prop


def main(path):
    if path.endswith(".txt"):
        # a design-level counterexample printed by TLC
        print(open(path).read()[:6000])
        return 1
    lines = [x for x in open(path).read().split("\n") if x]
    module, prop = module_for(path)
    with Work("replay") as w:
        r = validate_trace(w, lines, module=module)
        print("saved trace (%s): %s (%d of %d lines consumed)" % (module, "accepted" if r.accepted else "REJECTED", r.consumed, r.total))
        for m in r.messages:
            print("  " + m[:1200])
        if not r.accepted and r.consumed < len(lines):
            print("  rejected event: " + lines[r.consumed][:600])
        note = path + ".note"
        if os.path.exists(note):
            print("  note: " + open(note).read()[:400].strip())
        scn = path + ".scn"
        rc = 0 if r.accepted else 1
        if os.path.exists(scn) and module in ("SkinnyTrace", "ArduinoTrace"):
            if module == "ArduinoTrace":
                import props
                b = props.build_arduino(w)
            else:
                b = build(w)
            fresh = run_drv(b, open(scn).read())
            r2 = validate_trace(w, fresh, module=module)
            print("re-executed on current tree: %s (%d of %d lines consumed)"
                  % ("accepted" if r2.accepted else "REJECTED", r2.consumed, r2.total))
            for m in r2.messages:
                print("  " + m[:1200])
            rc = 0 if r2.accepted else 1
        return rc
