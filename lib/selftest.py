"""selftest: demonstrate that the trace specification is bound to the recorded
fields -- a good trace is accepted, and each single corruption of it is rejected
at the corrupted line.  (DESIGN 4, 'Demonstrating the binding'.)"""
import json, os, sys, copy
from core import *
from scen import *
import props


def base_scenario(seed):
    sc = Sc(seed)
    sc.reset("selftest")
    sc.ks_set_key("s128", 0, sc.rb(32))
    sc.ks_crypt(True, "s128", 0, sc.rb(16))
    sc.ks_set_tweaked_key("s64", 0, sc.rb(8))
    sc.ks_set_tweak("s64", 0, sc.rb(5))
    sc.ks_crypt(False, "s64", 0, sc.rb(8), t=1)
    sc.mk_set_key(0, sc.rb(16), 6, 1)
    sc.mk_swap(0)
    sc.mk_crypt(0, sc.rb(8))
    sc.ctr_init("s128", 0)
    sc.ctr_set_key("s128", 0, sc.rb(16))
    sc.ctr_set_counter("s128", 0, sc.rb(16))
    sc.ctr_encrypt("s128", 0, sc.rb(21))
    sc.ctr_encrypt("s128", 0, sc.rb(40))
    sc.ctr_set_key("s128", 0, sc.rb(15))           # rejected
    sc.ctr_encrypt("s128", 0, sc.rb(7))
    sc.par_init("mantis", 0)
    sc.par_set_key("mantis", 0, sc.rb(16), rounds=7, mode=0)
    sc.par_crypt("mantis", 0, sc.rb(72), tweak=sc.rb(72))
    # the "huge request" events on a small request (gib=0), and a CPU model
    sc.par_huge("mantis", 0, 0, 19 * 8, sc.rb_nz(8), enc=True, tweak=sc.rb(8))
    sc.ctr_huge("s128", 0, 0, 9 * 16 + 5, [0, 1, 8], tail=7)
    sc.ctr_cleanup("s128", 0)
    sc.par_cleanup("mantis", 0)
    sc.raw("cpu maxleaf=13 sse2=1 osxsave=1 avx2=0 top=0 noise=1")
    sc.ctr_init("s128", 1)
    sc.ctr_cleanup("s128", 1)
    sc.raw("cpu off=1")
    sc.raw("env")
    sc.quiesce()
    return sc


def corruptions(lines):
    """(name, corrupted lines, index of the first line that must be rejected)"""
    evs = [json.loads(x) for x in lines]
    def idx(pred, nth=0):
        return [i for i, e in enumerate(evs) if pred(e)][nth]
    res = []
    def mod(name, i, f):
        e2 = copy.deepcopy(evs)
        f(e2[i])
        res.append((name, [json.dumps(x) for x in e2], i))
    i = idx(lambda e: e["e"] == "ks_enc")
    mod("one output bit of ks_enc flipped", i, lambda e: e["out"].__setitem__(3, e["out"][3] ^ 1))
    i = idx(lambda e: e["e"] == "ks_set_key")
    mod("one schedule byte changed", i, lambda e: e["sched"].__setitem__(77, e["sched"][77] ^ 0x80))
    mod("rounds changed", i, lambda e: e.__setitem__("rounds", 40))
    i = idx(lambda e: e["e"] == "ks_set_tweak")
    mod("remembered tweak changed", i, lambda e: e["tw"].__setitem__(7, 1))
    i = idx(lambda e: e["e"] == "mk_swap")
    mod("alpha not applied to k1 after swap", i, lambda e: e["k1"].__setitem__(0, e["k1"][0] ^ 0x24))
    i = idx(lambda e: e["e"] == "ctr_set_key", 1)
    mod("return value of a rejected call flipped", i, lambda e: e.__setitem__("ret", 1))
    i = idx(lambda e: e["e"] == "ctr_encrypt", 2)
    mod("last CTR output byte changed", i, lambda e: e["out"].__setitem__(6, e["out"][6] ^ 0xFF))
    i = idx(lambda e: e["e"] == "ctr_init")
    mod("back end name changed", i, lambda e: e.__setitem__("be", "gen" if e["be"] != "gen" else "v128"))
    i = idx(lambda e: e["e"] == "ctr_cleanup")
    mod("non-zero bytes at free", i, lambda e: e.__setitem__("nz", 3))
    mod("block not released", i, lambda e: e.__setitem__("lv", e["lv"] + 1))
    i = idx(lambda e: e["e"] == "ctr_set_key")
    mod("object state released unwiped by a call that is not cleanup", i, lambda e: e.__setitem__("nzo", 5))
    i = idx(lambda e: e["e"] == "par_crypt")
    mod("stray write reported", i, lambda e: e.__setitem__("stray", 1))
    mod("parallel output block 8 changed", i, lambda e: e["out"].__setitem__(64, e["out"][64] ^ 2))
    i = idx(lambda e: e["e"] == "par_huge")
    mod("one block of a huge parallel request differs", i, lambda e: e.__setitem__("diff", 1))
    i = idx(lambda e: e["e"] == "ctr_huge")
    mod("a sampled key-stream block of a huge CTR request changed", i, lambda e: e["samples"][2]["b"].__setitem__(0, e["samples"][2]["b"][0] ^ 1))
    mod("last bytes of a huge CTR request changed", i, lambda e: e["tailb"].__setitem__(6, e["tailb"][6] ^ 1))
    if any(e["e"] == "cpu" and e.get("on") == 1 and e.get("ok") == 1 for e in evs):
        i = idx(lambda e: e["e"] == "ctr_init", 1)
        mod("back end beyond the (emulated) CPU model", i, lambda e: e.__setitem__("be", "v256"))
    # structural corruptions
    i = idx(lambda e: e["e"] == "ctr_encrypt", 0)
    dropped = [json.dumps(x) for k, x in enumerate(evs) if k != i]
    res.append(("first CTR data call dropped (later keystream position is off)", dropped, i))
    j = idx(lambda e: e["e"] == "ctr_encrypt", 1)
    sw = list(evs); sw[i], sw[j] = sw[j], sw[i]
    res.append(("two CTR data calls swapped", [json.dumps(x) for x in sw], i))
    return res


def main():
    seed = int(os.environ.get("VERIF_SEED", "1"))
    with Work("selftest") as w:
        b = build(w)
        lines = run_drv(b, base_scenario(seed).text())
        r = validate_trace(w, lines)
        ok = r.accepted
        print("good trace (%d events): %s" % (len(lines), "accepted" if r.accepted else "REJECTED"))
        results = []
        from concurrent.futures import ThreadPoolExecutor
        cs = corruptions(lines)
        with ThreadPoolExecutor(max_workers=8) as tp:
            rs = list(tp.map(lambda c: validate_trace(w, c[1]), cs))
        for (name, cl, at), rr in zip(cs, rs):
            good = (not rr.accepted) and rr.consumed == at
            ok = ok and good
            results.append({"corruption": name, "rejected": not rr.accepted, "at_line": rr.consumed + 1,
                            "expected_line": at + 1, "ok": good})
            print("  %-62s %s (line %d, expected %d)" % (name, "rejected" if not rr.accepted else "ACCEPTED",
                                                          rr.consumed + 1, at + 1))
        with open(os.path.join(VERIF, "selftest_result.json"), "w") as f:
            json.dump({"seed": seed, "good_trace_accepted": r.accepted, "corruptions": results}, f, indent=1)
        print("selftest:", "ok" if ok else "FAILED")
        return 0 if ok else 2
