"""Per-property checks.  Each function check_Cnn(work, tier, seed) returns an
Outcome plus the evidence parameters; vcheck dispatches here."""
import json, os, time, random
from core import *
from flow import *
from scen import *


def walking(n, pos, val):
    b = bytearray(n)
    b[pos] = val
    return bytes(b)


def cellsweep_blocks(kind, v):
    """Blocks in which every cell position takes a value derived from v so that,
    as v runs over all cell values, every position sees every value."""
    if kind == "s128":
        return bytes(((v + 17 * i) * 1) % 256 for i in range(16))
    # 16 nibble cells packed into 8 bytes
    cells = [((v + 5 * i) % 16) for i in range(16)]
    return bytes(cells[2 * i] * 16 + cells[2 * i + 1] for i in range(8))


# ------------------------------------------------------------------ C01

def gen_c01(seed, tier):
    sc = Sc(seed)
    thorough = tier == "thorough"
    for kind in ("s128", "s64"):
        bs = BS[kind]
        ncell = 256 if kind == "s128" else 16
        for z in (1, 2, 3):
            # published vector
            key, pt, ct = [bytes.fromhex(x) for x in SKINNY_VECTORS[(kind, z)]]
            sc.reset("c01-vec-%s-%d" % (kind, z))
            sc.ks_set_key(kind, 0, key)
            sc.ks_crypt(True, kind, 0, pt)
            sc.ks_crypt(False, kind, 0, ct)
            # (a) reduced rounds: every cell value in every cell position
            nkeys = 2 if thorough else 1
            for kk in range(nkeys):
                sc.reset("c01-rr-%s-%d-%d" % (kind, z, kk))
                sc.ks_set_key(kind, 0, sc.rb(z * bs))
                for rr in ((1, 2, 3, 4) if thorough else (1, 2)):
                    step = 1 if (rr == 1 or thorough) else 5
                    for v in range(0, ncell, step):
                        blk = cellsweep_blocks(kind, v)
                        if rr > 1:
                            blk = bytes(a ^ b for a, b in zip(blk, sc.rb(bs)))
                        sc.ks_crypt(True, kind, 0, blk, rr=rr)
                        sc.ks_crypt(False, kind, 0, blk, rr=rr)
            # (a') reduced rounds, every round-key byte position walked
            sc.reset("c01-rk-%s-%d" % (kind, z))
            for p in range(z * bs):
                for val in ((1, 0x80, 0xFF) if not thorough else (1, 2, 4, 8, 16, 32, 64, 128, 0xFF, 0xA5)):
                    sc.ks_set_key(kind, 0, walking(z * bs, p, val))
                    blk = sc.rb(bs)
                    sc.ks_crypt(True, kind, 0, blk, rr=3)
            # (b) full rounds: walking key bytes, patterns, random
            sc.reset("c01-full-%s-%d" % (kind, z))
            pos = list(range(z * bs))
            if not thorough:
                pos = pos[:: 3] + [z * bs - 1]
            for p in pos:
                sc.ks_set_key(kind, 0, walking(z * bs, p, 1 << sc.rng.randrange(8)))
                blk = sc.rb(bs)
                sc.ks_crypt(True, kind, 0, blk)
                sc.ks_crypt(False, kind, 0, blk)
            for pat in (0x00, 0xFF, 0xAA, 0x55):
                sc.ks_set_key(kind, 0, bytes([pat]) * (z * bs))
                sc.ks_crypt(True, kind, 0, bytes([pat ^ 0xFF]) * bs)
                sc.ks_crypt(False, kind, 0, bytes([pat]) * bs)
            nrand = 40 if thorough else 6
            sc.reset("c01-rand-%s-%d" % (kind, z))
            for i in range(nrand):
                if i % 4 == 0:
                    sc.ks_set_key(kind, i % 8, sc.rb(z * bs))
                blk = sc.rb(bs)
                sc.ks_crypt(True, kind, (i // 4 * 4) % 8, blk)
                # (c) decrypt arbitrary blocks, not only ciphertexts
                sc.ks_crypt(False, kind, (i // 4 * 4) % 8, blk)
    return sc


def note_distinct(out, lines, fields):
    for ln in lines:
        try:
            ev = json.loads(ln)
        except Exception:
            continue
        if ev.get("e") in ("env", "layout", "reset", "quiesce"):
            continue
        key = (ev.get("e"), ev.get("k"), ev.get("rr"), ev.get("len"),
               tuple(ev.get("in", [])[:16]) if isinstance(ev.get("in"), list) else None,
               tuple(ev.get("key", [])[:48]) if isinstance(ev.get("key"), list) else None,
               tuple(ev.get(f) if not isinstance(ev.get(f), list) else tuple(ev.get(f)) for f in fields))
        out.distinct.add(hash(key))


def sample_events(lines, n=4, maxlen=260):
    res = []
    picks = [x for x in lines if not x.startswith('{"e":"reset"') and not x.startswith('{"e":"env"')
             and not x.startswith('{"e":"layout"')]
    if not picks:
        return res
    step = max(1, len(picks) // n)
    for i in range(0, len(picks), step):
        s = picks[i]
        res.append(s if len(s) <= maxlen else s[:maxlen] + "...")
        if len(res) >= n:
            break
    return res


def check_C01(work, tier, seed):
    out = Outcome()
    b = build(work)
    sc = gen_c01(seed, tier)
    lines = conform(work, b, "C01", seed, sc.text(), out)
    note_distinct(out, lines, ("o",))
    out.samples = sample_events(lines)
    return out, dict(
        level="exploration",
        rule="SKINNY-64/128 x TK1/2/3: published vectors; reduced-round (rr=1..) sweeps in which every cell position "
             "takes every cell value, enc and dec; walking round-key bytes at 3 rounds; full-round walking key bytes, "
             "patterns and seeded random key/block pairs, enc and dec of arbitrary blocks. Oracle: SkinnySpec.tla "
             "evaluated by TLC (schedule image, output). distinct = distinct (event,kind,rr,key,input) tuples.",
        assumptions=["SkinnySpec.tla is the SKINNY specification (gated by the six published vectors and S-box/LFSR/"
                     "permutation inverse checks at TLC start-up)",
                     "input space is sampled; exhaustive only per cell position/value at reduced rounds"])


# ------------------------------------------------------------------ C02

def gen_c02(seed, tier):
    sc = Sc(seed)
    thorough = tier == "thorough"
    for r in (5, 6, 7, 8):
        pt, ct = [bytes.fromhex(x) for x in MANTIS_VECTORS[r]]
        sc.reset("c02-vec-%d" % r)
        sc.mk_set_key(0, MANTIS_KEY, r, 1)
        # fresh key => zero tweak (probe), then the vector's tweak by both paths
        sc.mk_crypt(0, pt)
        sc.mk_crypt(0, pt, tweak=bytes(8))
        sc.mk_set_tweak(0, MANTIS_TWEAK)
        sc.mk_crypt(0, pt)
        sc.mk_crypt(0, pt, tweak=MANTIS_TWEAK)
        sc.mk_set_key(1, MANTIS_KEY, r, 0)
        sc.mk_set_tweak(1, MANTIS_TWEAK)
        sc.mk_crypt(1, ct)
        sc.mk_crypt(1, ct, tweak=MANTIS_TWEAK)
    # reduced rounds: every cell value in every position, every tweak cell position
    for mode in (1, 0):
        sc.reset("c02-rr-%d" % mode)
        sc.mk_set_key(0, sc.rb(16), 5, mode)
        for rr in (0, 1, 2, 3):
            sc.mk_set_tweak(0, sc.rb(8))
            for v in range(16):
                blk = cellsweep_blocks("s64", v)
                if rr > 1:
                    blk = bytes(a ^ b for a, b in zip(blk, sc.rb(8)))
                sc.mk_crypt(0, blk, rr=rr)
                sc.mk_crypt(0, blk, tweak=cellsweep_blocks("s64", (v * 7 + 3) % 16), rr=rr)
    # walking key / tweak bytes at full rounds (k0' rotation carries, alpha, RC bytes)
    for r in ((5, 6, 7, 8) if thorough else (5, 8)):
        sc.reset("c02-walk-%d" % r)
        for p in range(16):
            for val in ((1, 0x80) if not thorough else (1, 2, 0x40, 0x80, 0xFF)):
                mode = sc.rng.randrange(2)
                sc.mk_set_key(0, walking(16, p, val), r, mode)
                blk = sc.rb(8)
                sc.mk_crypt(0, blk)
        sc.mk_set_key(0, sc.rb(16), r, 1)
        for p in range(8):
            tw = walking(8, p, 1 << sc.rng.randrange(8))
            sc.mk_set_tweak(0, tw)
            blk = sc.rb(8)
            sc.mk_crypt(0, blk)
            sc.mk_crypt(0, blk, tweak=tw)
        sc.mk_set_tweak(0, None)
        sc.mk_crypt(0, sc.rb(8))
    sc.reset("c02-rand")
    for i in range(200 if thorough else 24):
        r = 5 + sc.rng.randrange(4)
        mode = sc.rng.randrange(2)
        o = sc.rng.randrange(8)
        sc.mk_set_key(o, sc.rb(16), r, mode)
        blk = sc.rb(8)
        sc.mk_crypt(o, blk)              # fresh key: zero tweak
        tw = sc.rb(8)
        sc.mk_set_tweak(o, tw)
        sc.mk_crypt(o, blk)
        sc.mk_crypt(o, blk, tweak=tw)
        sc.mk_crypt(o, blk, tweak=sc.rb(8))
    return sc


def check_C02(work, tier, seed):
    out = Outcome()
    b = build(work)
    sc = gen_c02(seed, tier)
    lines = conform(work, b, "C02", seed, sc.text(), out)
    note_distinct(out, lines, ("o", "tweak", "mode", "nr"))
    out.samples = sample_events(lines)
    return out, dict(
        level="exploration",
        rule="MANTIS-5..8: published vectors through stored and per-call tweak paths, both modes; reduced rounds "
             "0..3 with every cell value in every block and tweak cell position; walking key and tweak bytes at full "
             "rounds; seeded random (key,tweak,block,rounds,mode) with fresh-key-zero-tweak probe. Oracle: "
             "MantisSpec.tla evaluated by TLC on schedule image (k0,k0',k1,tweak,rounds) and output.",
        assumptions=["MantisSpec.tla is the MANTIS specification (gated by the four published vectors, both directions)",
                     "input space is sampled"])


CHECKS = {"C01": check_C01, "C02": check_C02}


# ------------------------------------------------------------------ CTR (C05, C06)

BATCH = {("s128", 0): 1, ("s128", 1): 4, ("s128", 2): 8, ("s64", 0): 1, ("s64", 1): 8, ("s64", 2): 8,
         ("mantis", 0): 1, ("mantis", 1): 8, ("mantis", 2): 8}
CAPS = {"s128": (2, 1, 0), "s64": (1, 0), "mantis": (1, 0)}


def cuts(rng, total, bs, irregular=True):
    """Cut `total` bytes into request sizes: a mix of sizes relative to block
    and batch boundaries (for B in 1,4,8) and random ones, zero-length included."""
    special = [0, 1, bs - 1, bs, bs + 1, 4 * bs - 1, 4 * bs, 4 * bs + 1, 8 * bs - 1, 8 * bs, 8 * bs + 1,
               2 * bs + 3, 12 * bs + 5]
    res, left = [], total
    while left > 0:
        if rng.random() < 0.6:
            n = rng.choice(special)
        else:
            n = rng.randrange(0, 3 * bs)
        n = min(n, left)
        res.append(n)
        left -= n
    if rng.random() < 0.5:
        res.append(0)
    return res


def ctr_key_setup(sc, kind, o, keying, z=None):
    bs = BS[kind]
    if kind == "mantis":
        sc.ctr_set_key(kind, o, sc.rb(16), rounds=5 + sc.rng.randrange(4))
        if keying == "tweaked":
            sc.ctr_set_tweak(kind, o, sc.rb(8))
    elif keying == "plain":
        z = z or sc.rng.randrange(1, 4)
        sc.ctr_set_key(kind, o, sc.rb(z * bs))
    else:
        z = z or sc.rng.randrange(1, 3)
        sc.ctr_set_tweaked_key(kind, o, sc.rb(z * bs))
        if sc.rng.random() < 0.8:
            tl = sc.rng.randrange(1, bs + 1)
            sc.ctr_set_tweak(kind, o, sc.rb(tl))


def stream(sc, kind, o, total, inplace_prob=0.3):
    for n in cuts(sc.rng, total, BS[kind]):
        sc.ctr_encrypt(kind, o, sc.rb(n), ip=1 if (n and sc.rng.random() < inplace_prob) else None)


def gen_ctr(seed, tier, cap_for, c06=False):
    """CTR scenarios.  cap_for(kind) gives the back-end cap to request."""
    sc = Sc(seed)
    thorough = tier == "thorough"
    for kind in ("s128", "s64", "mantis"):
        bs = BS[kind]
        cap = cap_for(kind)
        keyings = ("plain", "tweaked")
        for keying in keyings:
            # 1. default counter after init (no set_counter), > 2 batches of 8
            sc.reset("ctr-default-%s-%s" % (kind, keying))
            sc.ctr_init(kind, 0, cap=cap)
            ctr_key_setup(sc, kind, 0, keying)
            stream(sc, kind, 0, (17 if not thorough else 26) * bs + 3)
            sc.ctr_cleanup(kind, 0)
            # 2. counters: wrap-around, carry chains through every byte, short, null
            sc.reset("ctr-counters-%s-%s" % (kind, keying))
            sc.ctr_init(kind, 0, cap=cap)
            ctr_key_setup(sc, kind, 0, keying)
            ctrs = [(b"\xff" * bs, bs), (None, 0), (None, bs), (b"", 0)]
            for nff in range(1, bs + 1):
                if thorough or nff in (1, 2, 3, bs // 2, bs - 1, bs):
                    c = sc.rb(bs - nff) + b"\xff" * (nff - 1) + bytes([0xFF - sc.rng.randrange(0, 9)])
                    ctrs.append((c, bs))
            for ln in range(1, bs):
                if thorough or ln in (1, 2, bs - 1):
                    ctrs.append((b"\xff" * ln if ln % 2 else sc.rb(ln), ln))
            for c, ln in ctrs:
                sc.ctr_set_counter(kind, 0, c, ln)
                stream(sc, kind, 0, (9 * bs + 1) if not thorough else (17 * bs + 5))
            sc.ctr_cleanup(kind, 0)
        # 3. random mixed streams
        for i in range(6 if thorough else 2):
            sc.reset("ctr-rand-%s-%d" % (kind, i))
            o = sc.rng.randrange(8)
            sc.ctr_init(kind, o, cap=cap)
            ctr_key_setup(sc, kind, o, sc.rng.choice(keyings))
            for j in range(3):
                sc.ctr_set_counter(kind, o, sc.rb(bs))
                data = sc.rb(sc.rng.randrange(0, 20 * bs))
                # applying the same stream twice restores the data: second pass in one call
                sc.ctr_encrypt(kind, o, data)
            sc.ctr_cleanup(kind, o)
        if c06:
            # 4. key / tweak / counter changes and invalid calls in the middle of a stream
            for i in range(8 if thorough else 3):
                sc.reset("ctr-mid-%s-%d" % (kind, i))
                sc.ctr_init(kind, 0, cap=cap)
                keying = sc.rng.choice(keyings)
                ctr_key_setup(sc, kind, 0, keying)
                sc.ctr_set_counter(kind, 0, sc.rb(bs))
                for j in range(6 if thorough else 4):
                    n = sc.rng.choice([1, bs - 1, bs, bs + 5, 3 * bs, 4 * bs + 1, 7 * bs, 8 * bs, 9 * bs + 2])
                    sc.ctr_encrypt(kind, 0, sc.rb(n))
                    r = sc.rng.random()
                    if r < 0.35:
                        ctr_key_setup(sc, kind, 0, keying)          # rekey mid-stream
                    elif r < 0.55 and keying == "tweaked":
                        sc.ctr_set_tweak(kind, 0, sc.rb(bs if kind != "mantis" else 8))
                    elif r < 0.7:
                        # invalid calls: must not disturb the stream
                        sc.ctr_set_key(kind, 0, sc.rb(bs - 1), rounds=5)
                        sc.ctr_set_counter(kind, 0, sc.rb(bs), bs + 1)
                        sc.ctr_encrypt(kind, 0, None, n=4)
                        sc.ctr_set_tweak(kind, 0, sc.rb(bs), bs + 3)
                    elif r < 0.8:
                        sc.ctr_set_counter(kind, 0, sc.rb(sc.rng.randrange(0, bs + 1)))
                    sc.ctr_encrypt(kind, 0, sc.rb(sc.rng.randrange(0, 2 * bs)))
                sc.ctr_cleanup(kind, 0)
            # 5. live but never keyed object (implementation-defined, must still be back-end independent)
            sc.reset("ctr-unkeyed-%s" % kind)
            sc.ctr_init(kind, 0, cap=cap)
            sc.ctr_set_counter(kind, 0, sc.rb(bs))
            sc.ctr_encrypt(kind, 0, sc.rb(9 * bs + 3))
            sc.ctr_cleanup(kind, 0)
    return sc


def run_mc(work, out, module, cfg, expect_fail=False, must_cover=(), **kw):
    r = model_check(work, module, cfg, **kw)
    rec, ok = mc_record(out, cfg, r, expect_fail=expect_fail, must_cover=must_cover)
    return r, ok


def mc_violation(pid, out, cfg, r):
    d = os.path.join(VERIF, "replays", pid)
    os.makedirs(d, exist_ok=True)
    p = os.path.join(d, "mc-%s.txt" % cfg)
    i = r.out.find("Error:")
    with open(p, "w") as f:
        f.write(r.out[i:] if i >= 0 else r.out)
    out.violations.append(("design:%s:%s" % (cfg, r.violated), p,
                           "design-level model %s violates %s" % (cfg, r.violated)))


def backend_sweep(work, b, pid, seed, gen, out, kinds_caps=None):
    """Reference run (widest back end) validated by TLC; runs under each lower
    cap compared by identity, differing executions validated by TLC."""
    ref_sc = gen(lambda kind: 2)
    ref = conform(work, b, pid, seed, ref_sc.text(), out, tag="-cap2")
    all_lines = list(ref)
    for cap in (1, 0):
        sc = gen(lambda kind, cap=cap: cap)
        lines = run_drv(b, sc.text())
        out.events += len(lines)
        head, diff = compare_axis(work, ref, lines, "cap%d" % cap, pid, seed, out)
        if diff:
            # differing executions get a full validation: their rejection point is the diagnosis
            txt_lines = head + [ln for ex in diff for ln in ex]
            sub = Outcome()
            sub_sc = sc.text()
            _ = conform_lines(work, pid, seed, txt_lines, sub_sc, sub, tag="-cap%d" % cap)
            out.merge(sub)
        all_lines += lines
    return all_lines


def conform_lines(work, pid, seed, lines, sc_text, out, tag=""):
    """Validate already-recorded trace lines (same bookkeeping as conform)."""
    class _B:  # adapter so that conform() can be reused without re-running the driver
        pass
    import flow as _f
    saved = _f.run_drv
    try:
        _f.run_drv = lambda b, t: lines
        return _f.conform(work, None, pid, seed, sc_text, out, tag=tag)
    finally:
        _f.run_drv = saved


def check_C05(work, tier, seed):
    out = Outcome()
    r, ok = run_mc(work, out, "MC_Ctr", "MC_Ctr", must_cover=("DoInit", "DoSetCounter", "DoSetKey", "DoEncrypt"))
    if not ok:
        mc_violation("C05", out, "MC_Ctr", r)
    if tier == "thorough":
        r, ok = run_mc(work, out, "MC_Ctr", "MC_Ctr8")
        if not ok:
            mc_violation("C05", out, "MC_Ctr8", r)
        run_mc(work, out, "MC_Ctr", "MCneg_Ctr_nostagger", expect_fail=True)
    b = build(work)
    lines = backend_sweep(work, b, "C05", seed, lambda cf: gen_ctr(seed, tier, cf, c06=False), out)
    note_distinct(out, lines, ("o", "n", "ctr", "cap"))
    out.samples = sample_events([x for x in lines if '"ctr_' in x])
    return out, dict(
        level="model_checking",
        rule="Design: MC_Ctr (TLC, exhaustive): all call sequences Init/SetCounter(c)/SetKey(k)/Encrypt(n) up to "
             "MaxCalls over radix-4 2-digit counters (every carry, wrap-around), batch sizes {1,2,4} (and {1,8}) "
             "in lock-step, requests 0..2B*bs+1: StreamLaw, BackendsAgree, PosRefines. Code: streams after init "
             "(default counter) and after explicit counters (all-FF wrap, FF-suffix carry chains, short lengths, "
             "NULL), irregular cuts incl. zero-length around block and 4/8-block batch boundaries, in/out of place, "
             "Skinny-64/128 plain+tweaked and Mantis, on every back end; outputs validated by TLC against the real "
             "cipher in TLA+, lower back ends by trace identity with the validated reference.",
        assumptions=["design-level exhaustiveness is within the stated constants",
                     "code-level: inputs sampled; reference trace validated by TLC, other back ends by identity or TLC"])


def check_C06(work, tier, seed):
    out = Outcome()
    r, ok = run_mc(work, out, "MC_Ctr", "MC_Ctr", must_cover=("DoInit", "DoSetCounter", "DoSetKey", "DoEncrypt"))
    if not ok:
        mc_violation("C06", out, "MC_Ctr", r)
    run_mc(work, out, "MC_Ctr", "MCneg_Ctr_dropbatch", expect_fail=True)
    if tier == "thorough":
        run_mc(work, out, "MC_Ctr", "MCneg_Ctr_nostagger", expect_fail=True)
        r, ok = run_mc(work, out, "MC_Ctr", "MC_Ctr8")
        if not ok:
            mc_violation("C06", out, "MC_Ctr8", r)
    b = build(work)
    lines = backend_sweep(work, b, "C06", seed + 1000, lambda cf: gen_ctr(seed + 1000, tier, cf, c06=True), out)
    note_distinct(out, lines, ("o", "n", "ctr", "cap"))
    out.samples = sample_events([x for x in lines if '"ctr_' in x])
    return out, dict(
        level="model_checking",
        rule="Design: product of implementation-shaped CTR models for batch sizes 1,2,4(,8) driven by the same call "
             "sequences (TLC exhaustive, incl. key change mid-stream): all outputs equal; shipped variants must fail "
             "(negative configs). Code: every CTR scenario (streams, mid-stream key/tweak/counter changes, invalid "
             "calls mid-stream, unkeyed object) executed under each back-end cap; reference validated by TLC, others "
             "must be identical up to the back-end name or are validated by TLC themselves.",
        assumptions=["hook H2 caps the probe downward only; a back end the host CPU lacks cannot be exercised"])


CHECKS.update({"C05": check_C05, "C06": check_C06})
