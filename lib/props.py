"""Per-property checks.  Each function check_Cnn(work, tier, seed) returns an
Outcome plus the evidence parameters; vcheck dispatches here."""
import json, os, time, random, subprocess, shutil, tempfile
from core import *
from flow import *
from scen import *


def walking(n, pos, val):
    b = bytearray(n)
    b[pos] = val
    return bytes(b)


def cellsweep_blocks(kind, v):
    """Blocks in which every cell position takes a value derived from v so that,
    as v runs over all cell values, every position sees every value."""
    if kind == "s128":
        return bytes(((v + 17 * i) * 1) % 256 for i in range(16))
    # 16 nibble cells packed into 8 bytes
    cells = [((v + 5 * i) % 16) for i in range(16)]
    return bytes(cells[2 * i] * 16 + cells[2 * i + 1] for i in range(8))


# ------------------------------------------------------------------ C01

def gen_c01(seed, tier):
    sc = Sc(seed)
    thorough = tier == "thorough"
    for kind in ("s128", "s64"):
        bs = BS[kind]
        ncell = 256 if kind == "s128" else 16
        for z in (1, 2, 3):
            # published vector
            key, pt, ct = [bytes.fromhex(x) for x in SKINNY_VECTORS[(kind, z)]]
            sc.reset("c01-vec-%s-%d" % (kind, z))
            sc.ks_set_key(kind, 0, key)
            sc.ks_crypt(True, kind, 0, pt)
            sc.ks_crypt(False, kind, 0, ct)
            # (a) reduced rounds: every cell value in every cell position
            nkeys = 4 if thorough else 1
            for kk in range(nkeys):
                sc.reset("c01-rr-%s-%d-%d" % (kind, z, kk))
                sc.ks_set_key(kind, 0, sc.rb(z * bs))
                for rr in ((1, 2, 3, 4) if thorough else (1, 2)):
                    step = 1 if (rr == 1 or thorough) else 5
                    for v in range(0, ncell, step):
                        blk = cellsweep_blocks(kind, v)
                        if rr > 1:
                            blk = bytes(a ^ b for a, b in zip(blk, sc.rb(bs)))
                        sc.ks_crypt(True, kind, 0, blk, rr=rr)
                        sc.ks_crypt(False, kind, 0, blk, rr=rr)
            # (a') reduced rounds, every round-key byte position walked
            sc.reset("c01-rk-%s-%d" % (kind, z))
            for p in range(z * bs):
                for val in ((1, 0x80, 0xFF) if not thorough else (1, 2, 4, 8, 16, 32, 64, 128, 0xFF, 0xA5)):
                    sc.ks_set_key(kind, 0, walking(z * bs, p, val))
                    blk = sc.rb(bs)
                    sc.ks_crypt(True, kind, 0, blk, rr=3)
            # (b) full rounds: walking key bytes, patterns, random
            sc.reset("c01-full-%s-%d" % (kind, z))
            pos = list(range(z * bs))
            if not thorough:
                pos = pos[:: 3] + [z * bs - 1]
            for p in pos:
                sc.ks_set_key(kind, 0, walking(z * bs, p, 1 << sc.rng.randrange(8)))
                blk = sc.rb(bs)
                sc.ks_crypt(True, kind, 0, blk)
                sc.ks_crypt(False, kind, 0, blk)
            for pat in (0x00, 0xFF, 0xAA, 0x55):
                sc.ks_set_key(kind, 0, bytes([pat]) * (z * bs))
                sc.ks_crypt(True, kind, 0, bytes([pat ^ 0xFF]) * bs)
                sc.ks_crypt(False, kind, 0, bytes([pat]) * bs)
            # keys that are prefixes / extensions of the previously expanded key, on the same and on
            # another object (a schedule must depend on nothing but the key passed in)
            sc.reset("c01-prefix-%s-%d" % (kind, z))
            master = sc.rb_nz(3 * bs)
            for o, n in ((0, 3), (0, z), (1, 1), (1, 3), (0, 2), (1, z), (0, 1)):
                sc.ks_set_key(kind, o, master[:n * bs])
                sc.ks_crypt(True, kind, o, sc.rb(bs))
            zero = bytes(3 * bs)
            for n in (1, 2, 3, 2, 1):
                sc.ks_set_key(kind, 0, zero[:n * bs])
                sc.ks_crypt(False, kind, 0, sc.rb(bs))
            # refused set_key calls (every wrong-length class, null key) on a keyed object: it goes on
            # encrypting under its key; then overlapping input/output blocks at every offset class
            sc.reset("c01-refused-%s-%d" % (kind, z))
            sc.ks_set_key(kind, 0, sc.rb(z * bs))
            blk = sc.rb(bs)
            sc.ks_crypt(True, kind, 0, blk)
            for badlen in (0, 1, bs - 1, 3 * bs + 1, 4 * bs, None):
                if badlen is None:
                    sc.ks_set_key(kind, 0, None, z * bs)
                else:
                    sc.ks_set_key(kind, 0, sc.rb(max(badlen, 1)), badlen)
                sc.ks_crypt(True, kind, 0, blk)
                sc.ks_crypt(False, kind, 0, blk)
            for off in ((0, 1, -1, 3, -3, 4, -4, bs // 2, -(bs // 2), bs - 1, -(bs - 1)) if not thorough
                        else range(-(bs - 1), bs)):
                blk = sc.rb(bs)
                sc.ks_crypt(True, kind, 0, blk, ov=off)
                sc.ks_crypt(False, kind, 0, blk, ov=off)
            nrand = 300 if thorough else 6
            sc.reset("c01-rand-%s-%d" % (kind, z))
            for i in range(nrand):
                if i % 4 == 0:
                    sc.ks_set_key(kind, i % 8, sc.rb(z * bs))
                blk = sc.rb(bs)
                sc.ks_crypt(True, kind, (i // 4 * 4) % 8, blk)
                # (c) decrypt arbitrary blocks, not only ciphertexts
                sc.ks_crypt(False, kind, (i // 4 * 4) % 8, blk)
    return sc


def note_distinct(out, lines, fields):
    for ln in lines:
        try:
            ev = json.loads(ln)
        except Exception:
            continue
        if ev.get("e") in ("env", "layout", "reset", "quiesce"):
            continue
        key = (ev.get("e"), ev.get("k"), ev.get("rr"), ev.get("len"),
               tuple(ev.get("in", [])[:16]) if isinstance(ev.get("in"), list) else None,
               tuple(ev.get("key", [])[:48]) if isinstance(ev.get("key"), list) else None,
               tuple(ev.get(f) if not isinstance(ev.get(f), list) else tuple(ev.get(f)) for f in fields))
        out.distinct.add(hash(key))


def sample_events(lines, n=4, maxlen=260):
    res = []
    picks = [x for x in lines if not x.startswith('{"e":"reset"') and not x.startswith('{"e":"env"')
             and not x.startswith('{"e":"layout"')]
    if not picks:
        return res
    step = max(1, len(picks) // n)
    for i in range(0, len(picks), step):
        s = picks[i]
        res.append(s if len(s) <= maxlen else s[:maxlen] + "...")
        if len(res) >= n:
            break
    return res


def check_C01(work, tier, seed):
    out = Outcome()
    b = build(work)
    sc = gen_c01(seed, tier)
    lines = conform(work, b, "C01", seed, sc.text(), out)
    # the other word-size code path (32-bit S-boxes, LFSRs, permutation) and the
    # byte-order-neutral one, on the same inputs
    for name, defs in (("w32", ["SKINNY_VERIF_64BIT=0"]),
                       ("w32-neutral", ["SKINNY_VERIF_64BIT=0", "SKINNY_VERIF_LITTLE_ENDIAN=0",
                                        "SKINNY_VERIF_VEC128_MATH=0", "SKINNY_VERIF_VEC256_MATH=0"])):
        b2 = build(work, name=name, defs=defs, built128=0 if "neutral" in name else 1,
                   built256=0 if "neutral" in name else 1)
        axis_compare(work, "C01", seed, out, lines, name, b2, sc.text(), "-" + name)
    # fresh processes in which OTHER uses of the library come first (tweakable and long keys of the
    # same cipher, CTR and parallel objects): a key schedule must not depend on what ran before
    pre = Sc(seed + 5)
    pre.lines = ["env"]
    pre.reset("c01-order")
    for kind in ("s64", "s128"):
        bs = BS[kind]
        pre.ks_set_tweaked_key(kind, 1, pre.rb(2 * bs))
        pre.ks_set_tweak(kind, 1, pre.rb(bs))
        pre.ks_crypt(True, kind, 1, pre.rb(bs), t=1)
        pre.ctr_init(kind, 0)
        pre.ctr_set_tweaked_key(kind, 0, pre.rb(bs))
        pre.ctr_encrypt(kind, 0, pre.rb(40))
        pre.ctr_cleanup(kind, 0)
        for z in (1, 2, 3):
            key, pt, ct = [bytes.fromhex(x) for x in SKINNY_VECTORS[(kind, z)]]
            pre.ks_set_key(kind, 0, key)
            pre.ks_crypt(True, kind, 0, pt)
            pre.ks_crypt(False, kind, 0, ct)
        pre.ks_crypt(True, kind, 1, pre.rb(bs), t=1)
    lines += conform(work, b, "C01", seed, pre.text(), out, tag="-order")
    note_distinct(out, lines, ("o",))
    out.samples = sample_events(lines)
    return out, dict(
        level="exploration",
        rule="(default build, 32-bit-word build and byte-order-neutral 32-bit build; prefix/extension keys and a "
             "fresh process in which tweakable, CTR and long-key uses come first) "
             "SKINNY-64/128 x TK1/2/3: published vectors; reduced-round (rr=1..) sweeps in which every cell position "
             "takes every cell value, enc and dec; walking round-key bytes at 3 rounds; full-round walking key bytes, "
             "patterns and seeded random key/block pairs, enc and dec of arbitrary blocks. Oracle: SkinnySpec.tla "
             "evaluated by TLC (schedule image, output). distinct = distinct (event,kind,rr,key,input) tuples.",
        assumptions=["SkinnySpec.tla is the SKINNY specification (gated by the six published vectors and S-box/LFSR/"
                     "permutation inverse checks at TLC start-up)",
                     "input space is sampled; exhaustive only per cell position/value at reduced rounds"])


# ------------------------------------------------------------------ C02

def gen_c02(seed, tier):
    sc = Sc(seed)
    thorough = tier == "thorough"
    for r in (5, 6, 7, 8):
        pt, ct = [bytes.fromhex(x) for x in MANTIS_VECTORS[r]]
        sc.reset("c02-vec-%d" % r)
        sc.mk_set_key(0, MANTIS_KEY, r, 1)
        # fresh key => zero tweak (probe), then the vector's tweak by both paths
        sc.mk_crypt(0, pt)
        sc.mk_crypt(0, pt, tweak=bytes(8))
        sc.mk_set_tweak(0, MANTIS_TWEAK)
        sc.mk_crypt(0, pt)
        sc.mk_crypt(0, pt, tweak=MANTIS_TWEAK)
        sc.mk_set_key(1, MANTIS_KEY, r, 0)
        sc.mk_set_tweak(1, MANTIS_TWEAK)
        sc.mk_crypt(1, ct)
        sc.mk_crypt(1, ct, tweak=MANTIS_TWEAK)
    # reduced rounds: every cell value in every position, every tweak cell position
    for mode in (1, 0):
        sc.reset("c02-rr-%d" % mode)
        sc.mk_set_key(0, sc.rb(16), 5, mode)
        for rr in (0, 1, 2, 3):
            sc.mk_set_tweak(0, sc.rb(8))
            for v in range(16):
                blk = cellsweep_blocks("s64", v)
                if rr > 1:
                    blk = bytes(a ^ b for a, b in zip(blk, sc.rb(8)))
                sc.mk_crypt(0, blk, rr=rr)
                sc.mk_crypt(0, blk, tweak=cellsweep_blocks("s64", (v * 7 + 3) % 16), rr=rr)
    # walking key / tweak bytes at full rounds (k0' rotation carries, alpha, RC bytes)
    for r in ((5, 6, 7, 8) if thorough else (5, 8)):
        sc.reset("c02-walk-%d" % r)
        for p in range(16):
            for val in ((1, 0x80) if not thorough else (1, 2, 0x40, 0x80, 0xFF)):
                mode = sc.rng.randrange(2)
                sc.mk_set_key(0, walking(16, p, val), r, mode)
                blk = sc.rb(8)
                sc.mk_crypt(0, blk)
        sc.mk_set_key(0, sc.rb(16), r, 1)
        for p in range(8):
            tw = walking(8, p, 1 << sc.rng.randrange(8))
            sc.mk_set_tweak(0, tw)
            blk = sc.rb(8)
            sc.mk_crypt(0, blk)
            sc.mk_crypt(0, blk, tweak=tw)
        sc.mk_set_tweak(0, None)
        sc.mk_crypt(0, sc.rb(8))
    sc.reset("c02-patterns")
    for r in (5, 6, 7, 8):
        for mode in (1, 0):
            for kpat, tpat, bpat in ((0x00, 0x00, 0x00), (0xFF, 0xFF, 0xFF), (0x00, 0xFF, 0x00), (0xFF, 0x00, 0xAA),
                                     (0x55, 0x00, 0xFF)):
                sc.mk_set_key(0, bytes([kpat]) * 16, r, mode)
                sc.mk_set_tweak(0, bytes([tpat]) * 8)
                sc.mk_crypt(0, bytes([bpat]) * 8)
                sc.mk_crypt(0, bytes([bpat]) * 8, tweak=bytes([tpat ^ 0x0F]) * 8)
    # refused calls (rounds outside 5..8, wrong key length, null key, null tweak object) on a keyed
    # schedule: it goes on computing MANTIS-r under its key, tweak and mode
    for r in (5, 6, 7, 8):
        sc.reset("c02-refused-%d" % r)
        mode = r % 2
        sc.mk_set_key(0, sc.rb(16), r, mode)
        tw = sc.rb(8)
        sc.mk_set_tweak(0, tw)
        blk = sc.rb(8)
        sc.mk_crypt(0, blk)
        for badr in (0, 1, 4, 9, 12, 255, 256 + r, 0x7FFFFFFF):
            sc.mk_set_key(0, sc.rb(16), badr, mode)
            sc.mk_crypt(0, blk)
            sc.mk_crypt(0, blk, tweak=sc.rb(8))
        for badlen in (0, 8, 15, 17, 32):
            sc.mk_set_key(0, sc.rb(max(badlen, 1)), r, 1 - mode, badlen)
            sc.mk_crypt(0, blk)
        sc.mk_set_key(0, None, r, mode, 16)
        sc.mk_crypt(0, blk)
        # the per-call tweak is not remembered
        sc.mk_crypt(0, blk, tweak=sc.rb(8))
        sc.mk_crypt(0, blk)
        # overlapping input/output blocks
        for off in (0, 1, -1, 4, -4, 7, -7):
            b2 = sc.rb(8)
            sc.mk_crypt(0, b2, ov=off)
            sc.mk_crypt(0, b2, tweak=sc.rb(8), ov=off)
    sc.reset("c02-rand")
    for i in range(1500 if thorough else 24):
        r = 5 + sc.rng.randrange(4)
        mode = sc.rng.randrange(2)
        o = sc.rng.randrange(8)
        sc.mk_set_key(o, sc.rb(16), r, mode)
        blk = sc.rb(8)
        sc.mk_crypt(o, blk)              # fresh key: zero tweak
        tw = sc.rb(8)
        sc.mk_set_tweak(o, tw)
        sc.mk_crypt(o, blk)
        sc.mk_crypt(o, blk, tweak=tw)
        sc.mk_crypt(o, blk, tweak=sc.rb(8))
    return sc


def check_C02(work, tier, seed):
    out = Outcome()
    b = build(work)
    sc = gen_c02(seed, tier)
    lines = conform(work, b, "C02", seed, sc.text(), out)
    # the 32-bit-word and 16-bit-row (byte-order-neutral) code paths on the same inputs
    for name, defs in (("w32", ["SKINNY_VERIF_64BIT=0"]),
                       ("w32-neutral", ["SKINNY_VERIF_64BIT=0", "SKINNY_VERIF_LITTLE_ENDIAN=0",
                                        "SKINNY_VERIF_VEC128_MATH=0", "SKINNY_VERIF_VEC256_MATH=0"])):
        b2 = build(work, name=name, defs=defs, built128=0 if "neutral" in name else 1,
                   built256=0 if "neutral" in name else 1)
        axis_compare(work, "C02", seed, out, lines, name, b2, sc.text(), "-" + name)
    note_distinct(out, lines, ("o", "tweak", "mode", "nr"))
    out.samples = sample_events(lines)
    return out, dict(
        level="exploration",
        rule="(default, 32-bit-word and byte-order-neutral builds) "
             "MANTIS-5..8: published vectors through stored and per-call tweak paths, both modes; reduced rounds "
             "0..3 with every cell value in every block and tweak cell position; walking key and tweak bytes at full "
             "rounds; seeded random (key,tweak,block,rounds,mode) with fresh-key-zero-tweak probe. Oracle: "
             "MantisSpec.tla evaluated by TLC on schedule image (k0,k0',k1,tweak,rounds) and output.",
        assumptions=["MantisSpec.tla is the MANTIS specification (gated by the four published vectors, both directions)",
                     "input space is sampled"])


CHECKS = {"C01": check_C01, "C02": check_C02}


# ------------------------------------------------------------------ CTR (C05, C06)

BATCH = {("s128", 0): 1, ("s128", 1): 4, ("s128", 2): 8, ("s64", 0): 1, ("s64", 1): 8, ("s64", 2): 8,
         ("mantis", 0): 1, ("mantis", 1): 8, ("mantis", 2): 8}
CAPS = {"s128": (2, 1, 0), "s64": (1, 0), "mantis": (1, 0)}


def cuts(rng, total, bs, irregular=True):
    """Cut `total` bytes into request sizes: a mix of sizes relative to block
    and batch boundaries (for B in 1,4,8) and random ones, zero-length included."""
    special = [0, 1, bs - 1, bs, bs + 1, 4 * bs - 1, 4 * bs, 4 * bs + 1, 8 * bs - 1, 8 * bs, 8 * bs + 1,
               2 * bs + 3, 12 * bs + 5]
    res, left = [], total
    while left > 0:
        if rng.random() < 0.6:
            n = rng.choice(special)
        else:
            n = rng.randrange(0, 3 * bs)
        n = min(n, left)
        res.append(n)
        left -= n
    if rng.random() < 0.5:
        res.append(0)
    return res


def ctr_key_setup(sc, kind, o, keying, z=None):
    bs = BS[kind]
    if kind == "mantis":
        sc.ctr_set_key(kind, o, sc.rb(16), rounds=5 + sc.rng.randrange(4))
        if keying == "tweaked":
            sc.ctr_set_tweak(kind, o, sc.rb(8))
    elif keying == "plain":
        z = z or sc.rng.randrange(1, 4)
        sc.ctr_set_key(kind, o, sc.rb(z * bs))
    else:
        z = z or sc.rng.randrange(1, 3)
        sc.ctr_set_tweaked_key(kind, o, sc.rb(z * bs))
        if sc.rng.random() < 0.8:
            tl = sc.rng.randrange(1, bs + 1)
            sc.ctr_set_tweak(kind, o, sc.rb(tl))


def stream(sc, kind, o, total, inplace_prob=0.3):
    for n in cuts(sc.rng, total, BS[kind]):
        r = sc.rng.random()
        data = bytes(n) if r < 0.08 else b"\xff" * n if r < 0.16 else sc.rb(n)     # all-zero / all-one data too
        sc.ctr_encrypt(kind, o, data, ip=1 if (n and sc.rng.random() < inplace_prob) else None)


def gen_ctr(seed, tier, cap_for, c06=False):
    """CTR scenarios.  cap_for(kind) gives the back-end cap to request."""
    sc = Sc(seed)
    thorough = tier == "thorough"
    for kind in ("s128", "s64", "mantis"):
        bs = BS[kind]
        cap = cap_for(kind)
        keyings = ("plain", "tweaked")
        for keying in keyings:
            # 1. default counter after init (no set_counter), > 2 batches of 8
            sc.reset("ctr-default-%s-%s" % (kind, keying))
            sc.ctr_init(kind, 0, cap=cap)
            ctr_key_setup(sc, kind, 0, keying)
            stream(sc, kind, 0, (17 if not thorough else 26) * bs + 3)
            sc.ctr_cleanup(kind, 0)
            # 2. counters: wrap-around, carry chains through every byte, short, null
            sc.reset("ctr-counters-%s-%s" % (kind, keying))
            sc.ctr_init(kind, 0, cap=cap)
            ctr_key_setup(sc, kind, 0, keying)
            ctrs = [(b"\xff" * bs, bs), (None, 0), (None, bs), (b"", 0)]
            for nff in range(1, bs + 1):
                if thorough or nff in (1, 2, 3, bs // 2, bs - 1, bs):
                    c = sc.rb(bs - nff) + b"\xff" * (nff - 1) + bytes([0xFF - sc.rng.randrange(0, 9)])
                    ctrs.append((c, bs))
            for ln in range(1, bs):
                if thorough or ln in (1, 2, bs - 1):
                    ctrs.append((b"\xff" * ln if ln % 2 else sc.rb(ln), ln))
            for c, ln in ctrs:
                sc.ctr_set_counter(kind, 0, c, ln)
                stream(sc, kind, 0, (9 * bs + 1) if not thorough else (17 * bs + 5))
            if not thorough:
                # every other counter LENGTH and every other carry-chain length, on a short stream
                for ln in range(3, bs - 1):
                    sc.ctr_set_counter(kind, 0, (b"\xff" * ln) if ln % 2 else sc.rb_nz(ln - 1) + b"\xfe", ln)
                    sc.ctr_encrypt(kind, 0, sc.rb(2 * bs + 3))
                for nff in range(4, bs - 1):
                    if nff != bs // 2:
                        sc.ctr_set_counter(kind, 0, sc.rb(bs - nff) + b"\xff" * (nff - 1) + b"\xfe")
                        sc.ctr_encrypt(kind, 0, sc.rb(3 * bs + 1))
            sc.ctr_cleanup(kind, 0)
        # 3. random mixed streams
        for i in range(14 if thorough else 2):
            sc.reset("ctr-rand-%s-%d" % (kind, i))
            o = sc.rng.randrange(8)
            sc.ctr_init(kind, o, cap=cap)
            ctr_key_setup(sc, kind, o, sc.rng.choice(keyings))
            for j in range(3):
                sc.ctr_set_counter(kind, o, sc.rb(bs))
                data = sc.rb(sc.rng.randrange(0, 20 * bs))
                # applying the same stream twice restores the data: second pass in one call
                sc.ctr_encrypt(kind, o, data)
            sc.ctr_cleanup(kind, o)
        if True:
            # 4. key / tweak / counter changes and invalid calls in the middle of a stream
            for i in range(20 if thorough else 3):
                sc.reset("ctr-mid-%s-%d" % (kind, i))
                sc.ctr_init(kind, 0, cap=cap)
                keying = sc.rng.choice(keyings)
                ctr_key_setup(sc, kind, 0, keying)
                sc.ctr_set_counter(kind, 0, sc.rb(bs))
                for j in range(6 if thorough else 4):
                    n = sc.rng.choice([1, bs - 1, bs, bs + 5, 3 * bs, 4 * bs + 1, 7 * bs, 8 * bs, 9 * bs + 2])
                    sc.ctr_encrypt(kind, 0, sc.rb(n))
                    r = sc.rng.random()
                    if r < 0.35:
                        ctr_key_setup(sc, kind, 0, keying)          # rekey mid-stream
                    elif r < 0.55 and keying == "tweaked":
                        sc.ctr_set_tweak(kind, 0, sc.rb(bs if kind != "mantis" else 8))
                    elif r < 0.7:
                        # invalid calls: must not disturb the stream
                        sc.ctr_set_key(kind, 0, sc.rb(bs - 1), rounds=5)
                        sc.ctr_set_counter(kind, 0, sc.rb(bs), bs + 1)
                        sc.ctr_encrypt(kind, 0, None, n=4)
                        sc.ctr_set_tweak(kind, 0, sc.rb(bs), bs + 3)
                        if keying == "tweaked":
                            sc.ctr_set_tweak(kind, 0, sc.rb_nz(bs if kind != "mantis" else 8))
                    elif r < 0.8:
                        sc.ctr_set_counter(kind, 0, sc.rb(sc.rng.randrange(0, bs + 1)))
                    sc.ctr_encrypt(kind, 0, sc.rb(sc.rng.randrange(0, 2 * bs)))
                sc.ctr_cleanup(kind, 0)
            # 4b. deterministic: key + non-zero tweak, stream stopped mid-block, every invalid call,
            #     then a tweak change and more data (hidden tweak / keystream state must survive rejections)
            sc.reset("ctr-mid-invalid-%s" % kind)
            sc.ctr_init(kind, 0, cap=cap)
            if kind == "mantis":
                sc.ctr_set_key(kind, 0, sc.rb(16), rounds=7)
                sc.ctr_set_tweak(kind, 0, sc.rb_nz(8))
            else:
                sc.ctr_set_tweaked_key(kind, 0, sc.rb(2 * bs))
                sc.ctr_set_tweak(kind, 0, sc.rb_nz(bs))
            sc.ctr_set_counter(kind, 0, sc.rb(bs))
            sc.ctr_encrypt(kind, 0, sc.rb(bs + 5))
            def probe(kind=kind, bs=bs):
                sc.ctr_encrypt(kind, 0, sc.rb(2))
            ctr_invalid_all(sc, kind, 0, probe)
            sc.ctr_set_tweak(kind, 0, sc.rb_nz(8 if kind == "mantis" else bs - 2))
            sc.ctr_encrypt(kind, 0, sc.rb(9 * bs + 1))
            ctr_invalid_all(sc, kind, 0)
            sc.ctr_set_tweak(kind, 0, sc.rb_nz(8 if kind == "mantis" else bs))
            sc.ctr_encrypt(kind, 0, sc.rb(bs))
            sc.ctr_cleanup(kind, 0)
            # 4b'. the SAME value set again in the middle of a block: tweak, key, tweaked key (a "nothing
            #     changed" shortcut must still abandon the rest of the block like every other back end)
            sc.reset("ctr-repeat-%s" % kind)
            sc.ctr_init(kind, 0, cap=cap)
            tl_ = 8 if kind == "mantis" else bs
            k1 = sc.rb(16 if kind == "mantis" else 2 * bs)
            t1 = sc.rb_nz(tl_)
            if kind == "mantis":
                sc.ctr_set_key(kind, 0, k1, rounds=7)
            else:
                sc.ctr_set_tweaked_key(kind, 0, k1)
            sc.ctr_set_tweak(kind, 0, bytes(tl_))            # equal to the initial all-zero tweak
            sc.ctr_set_tweak(kind, 0, t1)
            sc.ctr_set_counter(kind, 0, sc.rb(bs))
            for n in (bs + 5, 3, 4 * bs + 1, 9 * bs + 7):
                sc.ctr_encrypt(kind, 0, sc.rb(n))
                sc.ctr_set_tweak(kind, 0, t1)                # same tweak again, mid-block
                sc.ctr_encrypt(kind, 0, sc.rb(2))
            sc.ctr_encrypt(kind, 0, sc.rb(bs + 1))
            if kind == "mantis":
                sc.ctr_set_key(kind, 0, k1, rounds=7)        # same key again, mid-block
            else:
                sc.ctr_set_tweaked_key(kind, 0, k1)
            sc.ctr_encrypt(kind, 0, sc.rb(5))
            if kind != "mantis":
                k2 = sc.rb(3 * bs)
                sc.ctr_set_key(kind, 0, k2)
                sc.ctr_encrypt(kind, 0, sc.rb(7))
                sc.ctr_set_key(kind, 0, k2)                  # same plain key again, mid-block
                sc.ctr_encrypt(kind, 0, sc.rb(7))
                # the plain key again AFTER a tweaked key (and a tweak) replaced it, and vice versa
                sc.ctr_set_tweaked_key(kind, 0, k1)
                sc.ctr_set_tweak(kind, 0, t1)
                sc.ctr_encrypt(kind, 0, sc.rb(bs + 3))
                sc.ctr_set_key(kind, 0, k2)
                sc.ctr_encrypt(kind, 0, sc.rb(bs + 3))
                sc.ctr_set_tweaked_key(kind, 0, k1)
                sc.ctr_encrypt(kind, 0, sc.rb(bs + 3))
            c1 = sc.rb(bs)
            sc.ctr_set_counter(kind, 0, c1)
            sc.ctr_encrypt(kind, 0, sc.rb(3))
            sc.ctr_set_counter(kind, 0, c1)                  # same counter again: the stream restarts
            sc.ctr_encrypt(kind, 0, sc.rb(bs + 3))
            sc.ctr_cleanup(kind, 0)
            # 4d. every class of RELATED tweak after a full-length tweak with a non-zero tail (prefix of the
            #     tweak in force, shared half, one bit, counter step, the same value), stream mid-block
            if kind != "mantis":
                sc.reset("ctr-related-%s" % kind)
                sc.ctr_init(kind, 0, cap=cap)
                sc.ctr_set_tweaked_key(kind, 0, sc.rb(sc.rng.choice((1, 2)) * bs))
                for cls in range(7):
                    full = sc.rb_nz(bs)
                    sc.ctr_set_tweak(kind, 0, full)
                    sc.ctr_encrypt(kind, 0, sc.rb(bs + 3))
                    sc.ctr_set_tweak(kind, 0, related_tweak(sc, full, cls))
                    sc.ctr_encrypt(kind, 0, sc.rb(2 * bs + 1))
                for ln in (1, bs // 2, bs - 1):
                    full = sc.rb_nz(bs)
                    sc.ctr_set_tweak(kind, 0, full)
                    sc.ctr_encrypt(kind, 0, sc.rb(3))
                    sc.ctr_set_tweak(kind, 0, full[:ln])
                    sc.ctr_encrypt(kind, 0, sc.rb(bs + 1))
                sc.ctr_cleanup(kind, 0)
        if c06:
            # 4c. unconstrained API fuzz: ANY public CTR function with valid or invalid arguments in ANY
            #     order (plain key then tweak change, re-keying in the other family, tweak on an unkeyed
            #     object ...): the contract models all of it, so every back end must agree with it
            for i in range(16 if thorough else 2):
                sc.reset("ctr-fuzz-%s-%d" % (kind, i))
                sc.ctr_init(kind, 0, cap=cap)
                tl = 8 if kind == "mantis" else bs
                for step in range(40 if thorough else 24):
                    r = sc.rng.random()
                    if r < 0.12:
                        sc.ctr_set_key(kind, 0, valid_key(sc, kind), rounds=5 + sc.rng.randrange(4))
                    elif r < 0.2 and kind != "mantis":
                        sc.ctr_set_tweaked_key(kind, 0, valid_key(sc, kind, True))
                    elif r < 0.34:
                        ch = sc.rng.random()
                        if ch < 0.6:
                            sc.ctr_set_tweak(kind, 0, sc.rb_nz(tl if kind == "mantis" else sc.rng.randrange(1, bs + 1)))
                        elif ch < 0.8:
                            sc.ctr_set_tweak(kind, 0, None, tl)
                        else:
                            sc.ctr_set_tweak(kind, 0, sc.rb(tl + 1), sc.rng.choice((0, tl + 1)))
                    elif r < 0.46:
                        ch = sc.rng.random()
                        if ch < 0.7:
                            sc.ctr_set_counter(kind, 0, sc.rb(sc.rng.randrange(0, bs + 1)))
                        elif ch < 0.85:
                            sc.ctr_set_counter(kind, 0, None, sc.rng.randrange(0, bs + 1))
                        else:
                            sc.ctr_set_counter(kind, 0, sc.rb(bs + 1), bs + 1)
                    elif r < 0.52:
                        sc.ctr_set_key(kind, 0, sc.rb(sc.rng.choice((0, bs - 1, 3 * bs + 1))), rounds=sc.rng.choice((4, 6, 9)))
                    elif r < 0.55:
                        sc.ctr_encrypt(kind, 0, None, n=3)
                    else:
                        n = sc.rng.choice([0, 1, 2, bs - 1, bs, bs + 1, 2 * bs + 3, 4 * bs, 5 * bs + 1, 8 * bs, 9 * bs + 7])
                        sc.ctr_encrypt(kind, 0, sc.rb(n), ip=1 if (n and sc.rng.random() < 0.25) else None)
                sc.ctr_cleanup(kind, 0)
            # 5. live but never keyed object (implementation-defined, must still be back-end independent)
            sc.reset("ctr-unkeyed-%s" % kind)
            sc.ctr_init(kind, 0, cap=cap)
            sc.ctr_set_counter(kind, 0, sc.rb(bs))
            sc.ctr_encrypt(kind, 0, sc.rb(9 * bs + 3))
            sc.ctr_cleanup(kind, 0)
    return sc


_TIER = ["quick"]


def deep(cfg):
    """thorough tier: use the deeper configuration of a design model if there is one"""
    if _TIER[0] == "thorough" and os.path.exists(os.path.join(SPEC, cfg + "_deep.cfg")):
        return cfg + "_deep"
    return cfg


def run_mc(work, out, module, cfg, expect_fail=False, must_cover=(), **kw):
    if not expect_fail:
        cfg = deep(cfg)
    r = model_check(work, module, cfg, **kw)
    rec, ok = mc_record(out, cfg, r, expect_fail=expect_fail, must_cover=must_cover)
    return r, ok


def mc_violation(pid, out, cfg, r):
    d = os.path.join(VERIF, "replays", pid)
    os.makedirs(d, exist_ok=True)
    p = os.path.join(d, "mc-%s.txt" % cfg)
    i = r.out.find("Error:")
    with open(p, "w") as f:
        f.write(r.out[i:] if i >= 0 else r.out)
    out.violations.append(("design:%s:%s" % (cfg, r.violated), p,
                           "design-level model %s violates %s" % (cfg, r.violated)))


# ------------------------------------------------------------------ requests beyond 32 bits of length

def gen_huge(seed, kind, api, cap, rr, dec=False, gib=4):
    """one request of gib GiB + a little (a length that does not fit 32 bits) on a CTR or parallel
    object.  rr: reduced rounds (speed; the length handling does not depend on the rounds)."""
    sc = Sc(seed + 4096)
    bs = BS[kind]
    sc.reset("huge-%s-%s-cap%d%s" % (api, kind, cap, "-dec" if dec else ""))
    if api == "par":
        sc.par_init(kind, 0, cap=cap)
        sc.par_set_key(kind, 0, sc.rb(16 if kind == "mantis" else 2 * bs), rounds=6, mode=0 if dec else 1)
        rem = sc.rng.choice((8, 9, 11, 13)) * bs          # more than one group, and a ragged remainder
        sc.par_huge(kind, 0, gib, rem, sc.rb_nz(bs), enc=not dec, tweak=sc.rb_nz(8) if kind == "mantis" else None, rr=rr)
        sc.par_crypt(kind, 0, sc.rb(3 * bs), enc=True, tweak=sc.rb(24) if kind == "mantis" else None)
        sc.par_cleanup(kind, 0)
    else:
        sc.ctr_init(kind, 0, cap=cap)
        sc.ctr_set_key(kind, 0, sc.rb(16 if kind == "mantis" else 2 * bs), rounds=6)
        # the counter carries through its low bytes during the request
        sc.ctr_set_counter(kind, 0, sc.rb(bs - 4) + b"\xff\xff\xff\xf0")
        sc.ctr_encrypt(kind, 0, sc.rb(3), rr=rr)         # the stream stands in the middle of a block
        nb = (gib << 30) // bs
        rem = 9 * bs + 5
        sc.ctr_huge(kind, 0, gib, rem, [0, 1, 7, 8, nb // 2 + 3, nb - 1, nb, nb + 1, nb + 8], tail=7, rr=rr)
        sc.ctr_encrypt(kind, 0, sc.rb(bs + 2), rr=rr)    # the position after the request
        sc.ctr_cleanup(kind, 0)
    return sc


def huge_requests(work, b, pid, seed, out, jobs):
    """jobs: list of gen_huge argument tuples; the driver processes run side by side (each touches
    about gib GiB of output), every trace is validated by TLC"""
    from concurrent.futures import ThreadPoolExecutor
    import fcntl
    scs = [gen_huge(seed, *j) for j in jobs]
    # each driver touches about 4 GiB: at most three at a time on the whole machine, whatever else runs
    # (other checks, sweeps, campaigns) - a lock file outside /verif and /repo, nothing is kept in it
    with open(os.path.join(tempfile.gettempdir(), "verif-huge.lock"), "w") as lk:
        fcntl.flock(lk, fcntl.LOCK_EX)
        try:
            avail = 0
            for ln in open("/proc/meminfo"):
                if ln.startswith("MemAvailable:"):
                    avail = int(ln.split()[1]) // (1024 * 1024)        # GiB
            nworkers = min(3, avail // 6)
            if nworkers < 1:
                out.notes.append("requests of 4 GiB + n bytes SKIPPED: only %d GiB of memory available" % avail)
                return []
            with ThreadPoolExecutor(max_workers=nworkers) as ex:
                res = list(ex.map(lambda sc: run_drv(b, sc.text(), timeout=3000), scs))
        finally:
            fcntl.flock(lk, fcntl.LOCK_UN)
    # a driver that could not get its memory (mmap refused: exit 3, or killed by the OOM killer) says
    # nothing about the library: that request is skipped and the evidence says so
    kept = []
    for j, sc, ln in zip(jobs, scs, res):
        last = ln[-1] if ln else ""
        if '"op": "driver"' in last and ('"sig": 3,' in last or '"sig": -9,' in last):
            out.notes.append("request of 4 GiB + n bytes SKIPPED (%s/%s cap %d): the driver could not get the memory" % (j[1], j[0], j[2]))
        else:
            kept.append((j, sc, ln))
    jobs, scs, res = [k[0] for k in kept], [k[1] for k in kept], [k[2] for k in kept]
    lines = []
    for j, sc, ln in zip(jobs, scs, res):
        lines += conform_lines(work, pid, seed, ln, sc.text(), out, tag="-huge-%s-%s-%d" % (j[1], j[0], j[2]))
    out.notes.append("requests of 4 GiB + n bytes (length beyond 32 bits): %s" %
                     ", ".join("%s/%s cap %d rr=%s%s" % (j[1], j[0], j[2], j[3], " dec" if len(j) > 4 and j[4] else "") for j in jobs))
    return lines


def backend_sweep(work, b, pid, seed, gen, out, kinds_caps=None):
    """Reference run (widest back end) validated by TLC; runs under each lower
    cap compared by identity, differing executions validated by TLC."""
    ref_sc = gen(lambda kind: 2)
    ref = conform(work, b, pid, seed, ref_sc.text(), out, tag="-cap2")
    all_lines = list(ref)
    for cap in (1, 0):
        sc = gen(lambda kind, cap=cap: cap)
        lines = run_drv(b, sc.text())
        out.events += len(lines)
        head, diff = compare_axis(work, ref, lines, "cap%d" % cap, pid, seed, out)
        if diff:
            # differing executions get a full validation: their rejection point is the diagnosis
            txt_lines = head + [ln for ex in diff for ln in ex]
            sub = Outcome()
            sub_sc = sc.text()
            _ = conform_lines(work, pid, seed, txt_lines, sub_sc, sub, tag="-cap%d" % cap)
            out.merge(sub)
        all_lines += lines
    return all_lines


def conform_lines(work, pid, seed, lines, sc_text, out, tag=""):
    """Validate already-recorded trace lines (same bookkeeping as conform)."""
    class _B:  # adapter so that conform() can be reused without re-running the driver
        pass
    import flow as _f
    saved = _f.run_drv
    try:
        _f.run_drv = lambda b, t: lines
        return _f.conform(work, None, pid, seed, sc_text, out, tag=tag)
    finally:
        _f.run_drv = saved


def check_C05(work, tier, seed):
    out = Outcome()
    r, ok = run_mc(work, out, "MC_Ctr", "MC_Ctr", must_cover=("DoInit", "DoSetCounter", "DoSetKey", "DoEncrypt"))
    if not ok:
        mc_violation("C05", out, "MC_Ctr", r)
    run_mc(work, out, "MC_Ctr", "MCneg_Ctr_narrow", expect_fail=True)
    if tier == "thorough":
        r, ok = run_mc(work, out, "MC_Ctr", "MC_Ctr8")
        if not ok:
            mc_violation("C05", out, "MC_Ctr8", r)
        run_mc(work, out, "MC_Ctr", "MCneg_Ctr_nostagger", expect_fail=True)
    b = build(work)
    lines = backend_sweep(work, b, "C05", seed, lambda cf: gen_ctr(seed, tier, cf, c06=False), out)
    # the byte-wise and the 32-bit-word variants of the XOR / store helpers, under every back end
    for bname, defs in (("noua", ["SKINNY_VERIF_UNALIGNED=0"]), ("w32", ["SKINNY_VERIF_64BIT=0"])):
        b2 = build(work, name=bname, defs=defs)
        for cap in (2, 1, 0):
            axis_compare(work, "C05", seed, out, lines, "%s cap %d" % (defs[0], cap), b2,
                         gen_ctr(seed, tier, lambda k, cap=cap: cap, c06=False).text(), "-%s%d" % (bname, cap))
    # total lengths that do not fit 32 bits
    jobs = [(k, "ctr", CAPS[k][0], 1) for k in ("s128", "s64", "mantis")]
    if tier == "thorough":
        jobs = [(k, "ctr", c, None if c == CAPS[k][0] else 1) for k in ("s128", "s64", "mantis") for c in CAPS[k]]
    lines += huge_requests(work, b, "C05", seed, out, jobs)
    note_distinct(out, lines, ("o", "n", "ctr", "cap"))
    out.samples = sample_events([x for x in lines if '"ctr_' in x])
    return out, dict(
        level="model_checking",
        rule="Design: MC_Ctr (TLC, exhaustive): all call sequences Init/SetCounter(c)/SetKey(k)/Encrypt(n) up to "
             "MaxCalls over radix-4 2-digit counters (every carry, wrap-around), batch sizes {1,2,4} (and {1,8}) "
             "in lock-step, requests 0..2B*bs+1: StreamLaw, BackendsAgree, PosRefines. Code: streams after init "
             "(default counter) and after explicit counters (all-FF wrap, FF-suffix carry chains, short lengths, "
             "NULL), irregular cuts incl. zero-length around block and 4/8-block batch boundaries, in/out of place, "
             "Skinny-64/128 plain+tweaked and Mantis, on every back end; outputs validated by TLC against the real "
             "cipher in TLA+, lower back ends by trace identity with the validated reference.",
        assumptions=["design-level exhaustiveness is within the stated constants",
                     "code-level: inputs sampled; reference trace validated by TLC, other back ends by identity or TLC"])


def gen_par_c06(seed, tier, cap_for):
    """parallel-ECB call sequences for the back-end comparison: gen_c07's block counts, re-keys and
    refused requests, plus every remainder 0..23 in the DEcrypt direction per key size"""
    sc = gen_c07(seed, tier, cap_for)
    for kind in ("s128", "s64"):
        bs = BS[kind]
        sc.reset("c06-par-dec-%s" % kind)
        sc.par_init(kind, 0, cap=cap_for(kind))
        for z in (1, 2, 3):
            sc.par_set_key(kind, 0, sc.rb(z * bs))
            for nb in range(z - 1, 24, 3 if tier != "thorough" else 1):
                sc.par_crypt(kind, 0, sc.rb(nb * bs), enc=False, ip=1 if nb % 4 == 0 else None)
        # refused requests in between leave the object as it is
        sc.par_set_key(kind, 0, sc.rb(bs - 1))
        sc.par_crypt(kind, 0, sc.rb(3 * bs + 1), enc=True)
        sc.par_crypt(kind, 0, sc.rb(12 * bs), enc=False)
        sc.par_cleanup(kind, 0)
    return sc


def check_C06(work, tier, seed):
    out = Outcome()
    r, ok = run_mc(work, out, "MC_Ctr", "MC_Ctr", must_cover=("DoInit", "DoSetCounter", "DoSetKey", "DoEncrypt"))
    if not ok:
        mc_violation("C06", out, "MC_Ctr", r)
    run_mc(work, out, "MC_Ctr", "MCneg_Ctr_dropbatch", expect_fail=True)
    if tier == "thorough":
        run_mc(work, out, "MC_Ctr", "MCneg_Ctr_nostagger", expect_fail=True)
        r, ok = run_mc(work, out, "MC_Ctr", "MC_Ctr8")
        if not ok:
            mc_violation("C06", out, "MC_Ctr8", r)
    b = build(work)
    lines = backend_sweep(work, b, "C06", seed + 1000, lambda cf: gen_ctr(seed + 1000, tier, cf, c06=True), out)
    # parallel ECB objects: every block-count remainder in both directions, re-keying, refused calls,
    # and every transition of the object's state graph, under every back end
    lines += backend_sweep(work, b, "C06", seed + 1001, lambda cf: gen_par_c06(seed + 1001, tier, cf), out)
    lines += backend_sweep(work, b, "C06", seed + 1002, lambda cf: graph_par_scenarios(work, seed + 1002, cf, Outcome()), out)
    graph_par_scenarios(work, seed, lambda k: 2, out, kinds=())
    # the same on the GUARD-OFF library with the CPU itself changed (CPUID answered by the driver): an
    # SSE2-only machine and a machine without SIMD must give what caps 1 and 0 gave (hook H2 is faithful)
    b0 = build(work, name="nohook", hooks=False)
    if cpuid_faulting_available(b0):
        for label, cpu, cap in (("SSE2-only CPU", "cpu maxleaf=13 sse2=1 osxsave=1 avx2=0 top=0 noise=1", 1),
                                ("CPU without SIMD", "cpu maxleaf=13 sse2=0 osxsave=0 avx2=0 top=0 noise=1", 0)):
            for gi, gen in enumerate((lambda cf: gen_ctr(seed + 1000, tier, cf, c06=True),
                                      lambda cf: gen_par_c06(seed + 1001, tier, cf))):
                capped = gen(lambda k, cap=cap: cap).text()
                # reference: the very trace the sweep above validated for this cap (traces are deterministic)
                ref_cap = run_drv(b, capped)
                text = strip_caps(capped).replace("env\nlayout\n", "env\nlayout\n%s\n" % cpu, 1)
                axis_compare(work, "C06", seed, out, ref_cap, "guard-off build on an emulated %s" % label, b0, text,
                             "-cpu%d-%d" % (cap, gi))
        out.notes.append("guard-off library on emulated CPUs (SSE2-only, no SIMD): traces identical to caps 1 / 0")
    note_distinct(out, lines, ("o", "n", "ctr", "cap"))
    out.samples = sample_events([x for x in lines if '"ctr_' in x])
    return out, dict(
        level="model_checking",
        rule="Design: product of implementation-shaped CTR models for batch sizes 1,2,4(,8) driven by the same call "
             "sequences (TLC exhaustive, incl. key change mid-stream): all outputs equal; shipped variants must fail "
             "(negative configs). Code: every CTR scenario (streams, mid-stream key/tweak/counter changes, invalid "
             "calls mid-stream, unkeyed object) executed under each back-end cap; reference validated by TLC, others "
             "must be identical up to the back-end name or are validated by TLC themselves.",
        assumptions=["hook H2 caps the probe downward only; a back end the host CPU lacks cannot be exercised"])


CHECKS.update({"C05": check_C05, "C06": check_C06})


# ------------------------------------------------------------------ C04 tweak histories

def related_tweak(sc, t, cls=None):
    """a tweak related to t: same first half / same last half / one byte or one bit changed /
    counter-like increment of the last byte / a prefix of t / t itself"""
    t = bytearray(t)
    n = len(t)
    c = sc.rng.randrange(7) if cls is None else cls
    if c == 0:
        t[n // 2:] = sc.rb_nz(n - n // 2)
    elif c == 1:
        t[:n // 2] = sc.rb_nz(n // 2)
    elif c == 2:
        t[sc.rng.randrange(n)] ^= 1 << sc.rng.randrange(8)
    elif c == 3:
        t[n - 1] = (t[n - 1] + 1) & 0xFF
    elif c == 4:
        t[0] = (t[0] + 1) & 0xFF
    elif c == 5 and n > 1:
        return bytes(t[:sc.rng.randrange(1, n)])
    return bytes(t)


def gen_c04(seed, tier, cap_for=lambda k: 2):
    sc = Sc(seed)
    thorough = tier == "thorough"
    for kind in ("s128", "s64"):
        bs = BS[kind]
        for z in (1, 2):
            # fresh key => zero tweak; every length 1..bs; NULL; history independence
            sc.reset("c04-len-%s-%d" % (kind, z))
            key = sc.rb(z * bs)
            sc.ks_set_tweaked_key(kind, 0, key)
            blk = sc.rb(bs)
            sc.ks_crypt(True, kind, 0, blk, t=1)
            sc.ks_crypt(False, kind, 0, blk, t=1)
            for ln in range(1, bs + 1):
                sc.ks_set_tweak(kind, 0, sc.rb_nz(ln))
                if ln % 3 == 1 or thorough:
                    sc.ks_crypt(True, kind, 0, sc.rb(bs), t=1)
            sc.ks_set_tweak(kind, 0, None, bs)
            sc.ks_crypt(True, kind, 0, blk, t=1)
            sc.ks_set_tweak(kind, 0, sc.rb_nz(bs))
            sc.ks_set_tweak(kind, 0, None, 1)           # null with a short length still means all-zero
            sc.ks_crypt(False, kind, 0, blk, t=1)
            # invalid tweak changes leave the schedule as it was
            sc.ks_set_tweak(kind, 0, sc.rb(bs), 0)
            sc.ks_set_tweak(kind, 0, sc.rb(bs + 1), bs + 1)
            sc.ks_set_tweak(kind, "null", sc.rb(bs))
            sc.ks_crypt(True, kind, 0, blk, t=1)
            # refused re-keys (every wrong length class, null key) with a non-zero tweak in force leave
            # key AND remembered tweak alone: the next tweak change must still give fresh(key, tweak)
            for badlen in (0, 1, bs - 1, 2 * bs + 1, 3 * bs, 3 * bs + 1, None):
                sc.ks_set_tweak(kind, 0, sc.rb_nz(bs))
                if badlen is None:
                    sc.ks_set_tweaked_key(kind, 0, None, bs)
                else:
                    sc.ks_set_tweaked_key(kind, 0, sc.rb(max(badlen, 1)), badlen)
                sc.ks_crypt(True, kind, 0, blk, t=1)
                sc.ks_set_tweak(kind, 0, sc.rb_nz(sc.rng.randrange(1, bs + 1)))
                sc.ks_crypt(True, kind, 0, blk, t=1)
            # the new tweak handed over from INSIDE the object's own tweak field ("the second half of the
            # tweak in force"): legal, source and destination of the library's copy do not overlap
            for off, ln in ((bs // 2, bs // 2), (bs // 2, bs // 4), (bs - 2, 2), (bs - 1, 1)):   # off >= ln: disjoint from the copy
                sc.ks_set_tweak(kind, 0, sc.rb_nz(bs))
                sc.ks_set_tweak(kind, 0, bytes(ln), ln, selfoff=off)
                sc.ks_crypt(True, kind, 0, blk, t=1)
            # random histories
            for h in range(20 if thorough else 2):
                sc.reset("c04-hist-%s-%d-%d" % (kind, z, h))
                o = sc.rng.randrange(8)
                sc.ks_set_tweaked_key(kind, o, sc.rb(z * bs))
                lastt = bytes(bs)
                for i in range(sc.rng.randrange(8, 40 if thorough else 20)):
                    r = sc.rng.random()
                    if r < 0.08:
                        sc.ks_set_tweak(kind, o, None, sc.rng.randrange(1, bs + 1))
                    elif r < 0.12:
                        sc.ks_set_tweaked_key(kind, o, sc.rb(sc.rng.choice((1, 2)) * bs))
                    elif r < 0.14:
                        n = sc.rng.choice((0, bs - 1, 2 * bs + 1))
                        sc.ks_set_tweaked_key(kind, o, sc.rb(max(n, 1)), n)
                    elif r < 0.18:
                        # plain key straight into the public inner schedule, then tweak changes go on
                        sc.op("ks_set_key", k=kind, o=o, t=1, key=hx(sc.rb(sc.rng.randrange(bs, 3 * bs + 1))), pk=sc.pl())
                    elif r < 0.5:
                        # a tweak RELATED to the one in force (shared half, one bit, counter step, prefix, same)
                        lastt = related_tweak(sc, lastt if len(lastt) == bs else lastt + bytes(bs - len(lastt)))
                        sc.ks_set_tweak(kind, o, lastt)
                    else:
                        lastt = sc.rb(sc.rng.randrange(1, bs + 1))
                        sc.ks_set_tweak(kind, o, lastt)
                    if sc.rng.random() < 0.5:
                        sc.ks_crypt(sc.rng.random() < 0.5, kind, o, sc.rb(bs), t=1)
                # walking tweak bytes (every TK1 cell position)
            sc.reset("c04-walk-%s-%d" % (kind, z))
            sc.ks_set_tweaked_key(kind, 1, sc.rb(z * bs))
            for p in range(bs):
                sc.ks_set_tweak(kind, 1, walking(bs, p, 1 << sc.rng.randrange(8)))
                sc.ks_crypt(True, kind, 1, sc.rb(bs), t=1, rr=2)
        # the same through the CTR tweak API
        for i in range(3 if thorough else 1):
            sc.reset("c04-ctr-%s-%d" % (kind, i))
            sc.ctr_init(kind, 0, cap=cap_for(kind))
            sc.ctr_set_tweaked_key(kind, 0, sc.rb(sc.rng.choice((1, 2)) * bs))
            sc.ctr_encrypt(kind, 0, sc.rb(bs + 3))               # fresh: zero tweak
            for j in range(6):
                r = sc.rng.random()
                if r < 0.2:
                    sc.ctr_set_tweak(kind, 0, None, sc.rng.randrange(1, bs + 1))
                else:
                    sc.ctr_set_tweak(kind, 0, sc.rb_nz(sc.rng.randrange(1, bs + 1)))
                if j % 2 == 1:
                    # a refused re-key in between must not disturb the next tweak change
                    n = sc.rng.choice((0, bs - 1, 2 * bs + 1))
                    sc.ctr_set_tweaked_key(kind, 0, sc.rb(max(n, 1)), n)
                    sc.ctr_set_tweak(kind, 0, sc.rb_nz(sc.rng.randrange(1, bs + 1)))
                sc.ctr_set_counter(kind, 0, sc.rb(bs))
                sc.ctr_encrypt(kind, 0, sc.rb(sc.rng.randrange(1, 3 * bs)))
            # tweak changes WITHOUT a new counter, the stream stopped in every block of an 8-block batch
            # (first, middle and last bytes of the block), with related tweak values
            base = sc.rb_nz(bs)
            for blk in range(8):
                for off in (1, bs // 2, bs - 1):
                    sc.ctr_set_counter(kind, 0, sc.rb(bs))
                    sc.ctr_encrypt(kind, 0, sc.rb(blk * bs + off))
                    base = related_tweak(sc, base)
                    sc.ctr_set_tweak(kind, 0, base)
                    sc.ctr_encrypt(kind, 0, sc.rb(bs + 2))
            sc.ctr_cleanup(kind, 0)
    return sc


def check_C04(work, tier, seed):
    out = Outcome()
    r, ok = run_mc(work, out, "MC_Tweak", "MC_Tweak", must_cover=("SetTweakedKey", "SetTweak", "SetTweakNull", "SetTweakedKeyBad"))
    if not ok:
        mc_violation("C04", out, "MC_Tweak", r)
    for neg in ("MCneg_Tweak_stale", "MCneg_Tweak_noext", "MCneg_Tweak_xornew", "MCneg_Tweak_badkeyclears"):
        run_mc(work, out, "MC_Tweak", neg, expect_fail=True)
    b = build(work)
    lines = backend_sweep(work, b, "C04", seed, lambda cf: gen_c04(seed, tier, cf), out)
    # the 32-bit-word variant of the incremental tweak update (its own code in both ciphers)
    b32 = build(work, name="w32", defs=["SKINNY_VERIF_64BIT=0"])
    axis_compare(work, "C04", seed, out, lines, "SKINNY_64BIT=0", b32, gen_c04(seed, tier, lambda k: 0).text(), "-w32")
    # spec -> impl: every transition of the tweak machine's state graph on the real objects
    lines += conform(work, b, "C04", seed, graph_tweak_scenarios(work, seed, out).text(), out, tag="-graph")
    # a fresh process in which PLAIN keys of every size are expanded first (and in between): the
    # tweakable schedule must not depend on what the process did before
    pre = Sc(seed + 6)
    pre.lines = ["env"]
    pre.reset("c04-order")
    for kind in ("s64", "s128"):
        bs = BS[kind]
        for z in (3, 1, 2):
            pre.ks_set_key(kind, 0, pre.rb(z * bs))
            pre.ks_crypt(True, kind, 0, pre.rb(bs))
        for z in (1, 2):
            pre.ks_set_tweaked_key(kind, 1, pre.rb(z * bs))
            pre.ks_crypt(True, kind, 1, pre.rb(bs), t=1)
            pre.ks_set_tweak(kind, 1, pre.rb_nz(bs - 1))
            pre.ks_set_key(kind, 0, pre.rb(3 * bs))
            pre.ks_set_tweak(kind, 1, pre.rb_nz(bs))
            pre.ks_crypt(False, kind, 1, pre.rb(bs), t=1)
    lines += conform(work, b, "C04", seed, pre.text(), out, tag="-order")
    note_distinct(out, lines, ("o", "tweak", "len", "ctr"))
    out.samples = sample_events([x for x in lines if "tweak" in x])
    return out, dict(
        level="model_checking",
        rule="Design: MC_Tweak (TLC exhaustive, symbolic xor algebra = all keys/tweaks at once): all sequences of "
             "SetTweakedKey/SetTweak(len)/SetTweakNull/invalid calls up to the depth bound keep schedule = "
             "Fresh(key, last tweak); three wrong update rules must fail. Code: every tweak length 1..bs, NULL, "
             "invalid lengths, random histories of tweak changes, walking tweak bytes, and the CTR tweak API; after "
             "every call the schedule image and remembered tweak are compared by TLC with the schedule computed "
             "afresh from (key, latest tweak) by SkinnySpec, and outputs with SKINNY with TK1 = tweak.",
        assumptions=["tweak-domain constant 0x2 on cell 2 as recommended in the SKINNY paper (property statement)"])


# ------------------------------------------------------------------ C03 inverses and Mantis mode algebra

def gen_c03(seed, tier, cap_for=lambda k: 2):
    sc = Sc(seed)
    thorough = tier == "thorough"
    # Mantis mode machine on key schedules and on the parallel object
    for i in range(40 if thorough else 4):
        sc.reset("c03-mode-%d" % i)
        o = sc.rng.randrange(8)
        sc.mk_set_key(o, sc.rb(16), 5 + sc.rng.randrange(4), sc.rng.randrange(2))
        for j in range(sc.rng.randrange(4, 16)):
            r = sc.rng.random()
            if r < 0.4:
                sc.mk_swap(o)
            elif r < 0.6:
                sc.mk_set_tweak(o, sc.rb(8) if sc.rng.random() < 0.85 else None)
            elif r < 0.68:
                sc.mk_set_key(o, sc.rb(16), 5 + sc.rng.randrange(4), sc.rng.randrange(2))
            blk = sc.rb(8)
            sc.mk_crypt(o, blk)
            if sc.rng.random() < 0.4:
                sc.mk_crypt(o, blk, tweak=sc.rb(8))
    for i in range(4 if thorough else 2):
        sc.reset("c03-parmode-%d" % i)
        sc.par_init("mantis", 0, cap=cap_for("mantis"))
        sc.par_set_key("mantis", 0, sc.rb(16), rounds=5 + sc.rng.randrange(4), mode=sc.rng.randrange(2))
        for j in range(5):
            if sc.rng.random() < 0.7:
                sc.par_swap(0)
            nb = sc.rng.choice((1, 3, 8, 9, 17))
            sc.par_crypt("mantis", 0, sc.rb(nb * 8), tweak=sc.rb(nb * 8))
        sc.par_cleanup("mantis", 0)
    # SKINNY: encrypt and decrypt of the same arbitrary blocks, single-block and parallel
    for kind in ("s128", "s64"):
        bs = BS[kind]
        for z in (1, 2, 3):
            sc.reset("c03-inv-%s-%d" % (kind, z))
            key = sc.rb(z * bs)
            sc.ks_set_key(kind, 0, key)
            sc.par_init(kind, 0, cap=cap_for(kind))
            sc.par_set_key(kind, 0, key)
            # block counts: every remainder of the widest group (8) shows up in BOTH directions per kind
            for nb in (tuple(range(1, 20)) if thorough else ((9, 12, 17), (13, 14, 18), (15, 19, 11))[z - 1]):
                data = sc.rb(nb * bs)
                sc.par_crypt(kind, 0, data, enc=True)
                sc.par_crypt(kind, 0, data, enc=False)      # decrypt arbitrary data
            for i in range(6 if thorough else 2):
                blk = sc.rb(bs)
                sc.ks_crypt(True, kind, 0, blk)
                sc.ks_crypt(False, kind, 0, blk)
            # reduced rounds drive every inverse S-box copy of the vector code
            for rr in (1, 2):
                for v in range(0, 256 if kind == "s128" else 16, 1 if thorough else (16 if kind == "s128" else 2)):
                    data = b"".join(bytes(a ^ b for a, b in zip(cellsweep_blocks(kind, (v + 3 * j) % 256), bytes([j] * bs)))
                                    for j in range(9))
                    sc.par_crypt(kind, 0, data, enc=False, rr=rr)
                    if v % 4 == 0:
                        sc.par_crypt(kind, 0, data, enc=True, rr=rr)
            sc.par_cleanup(kind, 0)
    return sc


def check_C03(work, tier, seed):
    out = Outcome()
    r, ok = run_mc(work, out, "MC_Mode", "MC_Mode", must_cover=("SetKey", "SetTweak", "Swap"))
    if not ok:
        mc_violation("C03", out, "MC_Mode", r)
    for neg in ("MCneg_Mode_noalpha", "MCneg_Mode_losetweak"):
        run_mc(work, out, "MC_Mode", neg, expect_fail=True)
    # Dec.Enc = id and Enc.Dec = id in the SPECIFICATION (components exhaustively where small)
    r, ok = run_mc(work, out, "MC_Cipher", "MC_Cipher", coverage=False)
    if not ok:
        mc_violation("C03", out, "MC_Cipher", r)
    b = build(work)
    lines = backend_sweep(work, b, "C03", seed, lambda cf: gen_c03(seed, tier, cf), out)
    # the 32-bit-word variants of the vector (inverse) S-boxes, under every back end
    b32 = build(work, name="w32", defs=["SKINNY_VERIF_64BIT=0"])
    for cap in (2, 1, 0):
        axis_compare(work, "C03", seed, out, lines, "SKINNY_64BIT=0 cap %d" % cap, b32,
                     gen_c03(seed, tier, lambda k, cap=cap: cap).text(), "-w32-%d" % cap)
    # spec -> impl: every transition of the mode machine's state graph on the real objects
    lines += conform(work, b, "C03", seed, graph_mode_scenarios(work, seed, lambda k: 2, out).text(), out, tag="-graph")
    # the inverse direction on requests whose length does not fit 32 bits
    jobs = [("mantis", "par", 1, 1, True), ("s128", "par", 2, 1, True), ("s64", "par", 1, 1, True)]
    lines += huge_requests(work, b, "C03", seed, out, jobs)
    note_distinct(out, lines, ("o", "n", "tweak", "mode"))
    out.samples = sample_events([x for x in lines if "swap" in x or "par_" in x])
    return out, dict(
        level="model_checking",
        rule="Design: MC_Mode (TLC exhaustive, symbolic xor algebra): all sequences of SetKey(enc|dec)/SetTweak/Swap "
             "keep <<k0,k0',k1,tweak>> = MKs(key, current mode, last tweak), hence swap.swap = id and swap = rekey in "
             "the other mode + tweak; two wrong swaps must fail. Code: random mode-machine walks on MantisKey_t and on "
             "the parallel object (state image and every crypt validated by TLC against MantisSpec in the model's "
             "mode); SKINNY: the same arbitrary blocks through encrypt AND decrypt of the single-block and parallel "
             "functions, full and reduced rounds (every inverse S-box copy), each validated against SkinnySpec, on "
             "every back end - so round trips follow from conformance plus Dec.Enc = id in the specification, which "
             "MC_Cipher checks (Mix/InvMix and Mantis M exhaustively per 4-bit column, round/inverse round and whole "
             "ciphers on a deterministic sample, permutation and LFSR inverse laws).",
        assumptions=["inverse laws of the reference ciphers are checked on their components at TLC start-up"])


# ------------------------------------------------------------------ C07 parallel ECB

def gen_c07(seed, tier, cap_for=lambda k: 2):
    sc = Sc(seed)
    thorough = tier == "thorough"
    for kind in ("s128", "s64", "mantis"):
        bs = BS[kind]
        sc.reset("c07-counts-%s" % kind)
        sc.par_init(kind, 0, cap=cap_for(kind))
        if kind == "mantis":
            sc.par_set_key(kind, 0, sc.rb(16), rounds=5 + sc.rng.randrange(4), mode=1)
        else:
            sc.par_set_key(kind, 0, sc.rb(sc.rng.randrange(1, 4) * bs))
        for nb in range(0, 20 if not thorough else 26):
            data = sc.rb(nb * bs) if nb % 7 != 3 else (bytes(nb * bs) if nb % 2 else b"\xff" * (nb * bs))
            tw = sc.rb(nb * 8) if kind == "mantis" else None
            ip = 1 if nb % 3 == 1 else None
            sc.par_crypt(kind, 0, data, enc=True, tweak=tw, ip=ip)
            if kind != "mantis" and (thorough or nb % 2 == 1):
                sc.par_crypt(kind, 0, data, enc=False, ip=ip)
        # byte counts that are not whole blocks are rejected
        for n in (1, bs - 1, bs + 1, 8 * bs + 3):
            sc.par_crypt(kind, 0, sc.rb(n), tweak=sc.rb(16 * 8) if kind == "mantis" else None)
        sc.par_cleanup(kind, 0)
        # one object keyed again and again after whole groups were processed (other key, other size /
        # rounds / mode, the same key, a refused key): always block-by-block ECB under the key in force
        sc.reset("c07-rekey-%s" % kind)
        sc.par_init(kind, 0, cap=cap_for(kind))
        k1 = sc.rb(16 if kind == "mantis" else 2 * bs)
        for step, (key, kw) in enumerate((
                (k1, dict(rounds=6, mode=1)),
                (sc.rb(len(k1)), dict(rounds=6, mode=1)),
                (sc.rb(16 if kind == "mantis" else 3 * bs), dict(rounds=8, mode=0)),
                (sc.rb(16 if kind == "mantis" else bs), dict(rounds=5, mode=0)),
                (k1, dict(rounds=5, mode=1)),
                (k1, dict(rounds=5, mode=1)),
                (sc.rb(bs - 1), dict(rounds=7, mode=1)),          # refused: the key in force stays
                (sc.rb(len(k1)), dict(rounds=7, mode=0)))):
            if kind == "mantis":
                sc.par_set_key(kind, 0, key, **kw)
            else:
                sc.par_set_key(kind, 0, key)
            nb = (19, 8, 17, 9, 16, 3, 18, 11)[step]
            data = sc.rb(nb * bs)
            tw = sc.rb(nb * 8) if kind == "mantis" else None
            sc.par_crypt(kind, 0, data, enc=True, tweak=tw)
            if kind != "mantis":
                sc.par_crypt(kind, 0, data, enc=False)
            elif step % 2:
                sc.par_swap(0)
                sc.par_crypt(kind, 0, data, tweak=tw)
        sc.par_cleanup(kind, 0)
        if kind == "mantis":
            for r in (5, 6, 7, 8):
                for mode in (1, 0):
                    sc.reset("c07-mantis-%d-%d" % (r, mode))
                    sc.par_init(kind, 0, cap=cap_for(kind))
                    sc.par_set_key(kind, 0, sc.rb(16), rounds=r, mode=mode)
                    for nb in (7, 8, 9, 16, 19):
                        # distinct tweak per block so that a shifted tweak index shows
                        sc.par_crypt(kind, 0, sc.rb(nb * 8), tweak=bytes((i * 29 + 7) % 256 for i in range(nb * 8)))
                    sc.par_cleanup(kind, 0)
        else:
            for z in (1, 2, 3):
                sc.reset("c07-z-%s-%d" % (kind, z))
                sc.par_init(kind, 0, cap=cap_for(kind))
                sc.par_set_key(kind, 0, sc.rb(z * bs))
                for nb in (3, 8, 13, 16, 17):
                    data = sc.rb(nb * bs)
                    sc.par_crypt(kind, 0, data, enc=True)
                    sc.par_crypt(kind, 0, data, enc=False)
                # structured data, reduced rounds: every S-box copy in every lane
                for v in range(0, 256 if kind == "s128" else 16, (8 if kind == "s128" else 1) if not thorough else 1):
                    data = b"".join(cellsweep_blocks(kind, (v + 11 * j) % 256) for j in range(8))
                    sc.par_crypt(kind, 0, data, enc=True, rr=1)
                sc.par_cleanup(kind, 0)
    return sc


def check_C07(work, tier, seed):
    out = Outcome()
    r, ok = run_mc(work, out, "MC_Par", "MC_Par", must_cover=("Crypt",))
    if not ok:
        mc_violation("C07", out, "MC_Par", r)
    run_mc(work, out, "MC_Par", "MCneg_Par_noremainder", expect_fail=True)
    run_mc(work, out, "MC_Par", "MCneg_Par_narrow", expect_fail=True)
    b = build(work)
    lines = backend_sweep(work, b, "C07", seed, lambda cf: gen_c07(seed, tier, cf), out)
    # the byte-wise load/store variants of the vector code (strict-alignment targets) and the
    # 32-bit-word variants of the vector S-boxes, under every back end
    for bname, defs in (("noua", ["SKINNY_VERIF_UNALIGNED=0"]), ("w32", ["SKINNY_VERIF_64BIT=0"])):
        b2 = build(work, name=bname, defs=defs)
        for cap in (2, 1, 0):
            axis_compare(work, "C07", seed, out, lines, "%s cap %d" % (defs[0], cap), b2,
                         gen_c07(seed, tier, lambda k, cap=cap: cap).text(), "-%s%d" % (bname, cap))
    # spec -> impl: every transition of the parallel object's state graph (incl. re-keying after whole
    # groups were processed) on the real objects
    lines += conform(work, b, "C07", seed, graph_par_scenarios(work, seed, lambda k: 2, out).text(), out, tag="-graph")
    # block counts that do not fit 32 bits (in bytes)
    jobs = [(k, "par", CAPS[k][0], 1) for k in ("s128", "s64", "mantis")]
    if tier == "thorough":
        jobs = [(k, "par", c, None if c == CAPS[k][0] else 1, d) for k in ("s128", "s64", "mantis") for c in CAPS[k]
                for d in (False, True)]
    lines += huge_requests(work, b, "C07", seed, out, jobs)
    note_distinct(out, lines, ("o", "n", "tweak", "cap"))
    out.samples = sample_events([x for x in lines if '"par_' in x])
    return out, dict(
        level="model_checking",
        rule="Design: MC_Par (TLC exhaustive): batch loop + remainder loop for psize in {4,8} blocks with/without "
             "vector table, all block counts 0..3*8+1 and non-multiple byte counts, equals map of the single-block "
             "function and never touches bytes past size; a variant without the remainder loop must fail. Code: "
             "block counts 0..19(25), ragged byte counts, in/out of place, Mantis with a distinct tweak per block, "
             "all rounds and modes, all key sizes, reduced-round S-box sweeps, on every back end; each output block "
             "validated by TLC against the single-block cipher of the specification; parallel_size against ParSize.",
        assumptions=["single-block conformance is C01/C02"])


# ------------------------------------------------------------------ C10 key lengths

def gen_c10(seed, tier, cap_for=lambda k: 2):
    sc = Sc(seed)
    thorough = tier == "thorough"
    # far out of range, and classes that wrap to an accepted value if the length is narrowed to 8/16 bits
    # or scaled (x8 bits, x2 nibbles, x16) in 32-bit arithmetic
    HUGE = (2147483647, 4294967295, 65536 + 16, 256 + 16, (1 << 29) + 8, (1 << 29) + 16, (1 << 29) + 24,
            (1 << 30) + 16, (1 << 28) + 16, (1 << 31) + 16, (3 << 29) + 24, (1 << 24) + 32)
    for kind in ("s128", "s64"):
        bs = BS[kind]
        lens = list(range(0, 3 * bs + 17))
        # plain key schedule: every length, prior state Unset then Set
        sc.reset("c10-ks-%s" % kind)
        for ln in lens:
            key = sc.rb_nz(max(ln, 1))[:ln] if ln else b""
            sc.ks_set_key(kind, 0, key if ln else b"", ln)
            if bs <= ln <= 3 * bs:
                blk = sc.rb(bs)
                sc.ks_crypt(True, kind, 0, blk)
                if thorough:
                    sc.ks_crypt(False, kind, 0, blk)
        # sparse keys: a short last part that starts (or ends) with zero bytes is still key material
        sc.reset("c10-sparse-%s" % kind)
        for ln in range(bs + 1, 3 * bs):
            if ln % bs == 0:
                continue
            full = ln // bs * bs
            shapes = [bytes(ln - 1) + sc.rb_nz(1),                               # only the last byte
                      sc.rb_nz(full) + bytes(ln - full - 1) + sc.rb_nz(1),       # part: zeros then one byte
                      sc.rb_nz(full) + sc.rb_nz(1) + bytes(ln - full - 1)]       # part: one byte then zeros
            for si_, key in enumerate(shapes):
                if not thorough and (ln + si_) % 3:
                    continue
                blk = sc.rb(bs)
                sc.ks_set_key(kind, 0, key)
                sc.ks_crypt(True, kind, 0, blk)
                if ln <= 2 * bs:
                    sc.ks_set_tweaked_key(kind, 0, key)
                    sc.ks_crypt(True, kind, 0, blk, t=1)
        sc.reset("c10-ks2-%s" % kind)
        for h in HUGE:
            sc.ks_set_key(kind, 0, sc.rb_nz(3 * bs), h)
        sc.ks_set_key(kind, 0, None, bs)
        sc.ks_set_key(kind, "null", sc.rb(bs))
        sc.ks_crypt(True, kind, 0, sc.rb(bs))
        # tweaked
        sc.reset("c10-tks-%s" % kind)
        for ln in lens:
            key = sc.rb_nz(max(ln, 1))[:ln] if ln else b""
            sc.ks_set_tweaked_key(kind, 0, key if ln else b"", ln)
            if bs <= ln <= 2 * bs:
                sc.ks_set_tweak(kind, 0, sc.rb(bs))
                sc.ks_crypt(True, kind, 0, sc.rb(bs), t=1)
        for h in HUGE:
            sc.ks_set_tweaked_key(kind, 0, sc.rb_nz(2 * bs), h)
        sc.ks_set_tweaked_key(kind, 0, None, bs)
        sc.ks_crypt(True, kind, 0, sc.rb(bs), t=1)
        # CTR (plain and tweaked) and parallel
        sc.reset("c10-ctr-%s" % kind)
        sc.ctr_init(kind, 0, cap=cap_for(kind))
        for ln in lens:
            key = sc.rb_nz(max(ln, 1))[:ln] if ln else b""
            sc.ctr_set_key(kind, 0, key if ln else b"", ln)
            if bs <= ln <= 3 * bs or ln % 7 == 0:
                sc.ctr_set_counter(kind, 0, sc.rb(bs))
                sc.ctr_encrypt(kind, 0, sc.rb(bs + 1))
        for h in HUGE:
            sc.ctr_set_key(kind, 0, sc.rb_nz(3 * bs), h)
        sc.ctr_encrypt(kind, 0, sc.rb(bs))
        sc.ctr_cleanup(kind, 0)
        sc.reset("c10-ctrt-%s" % kind)
        sc.ctr_init(kind, 0, cap=cap_for(kind))
        # one object keyed alternately through both families with the SAME bytes coming back: each accepted
        # call means the key it was given (zero-padded), whatever the object held before
        for ln in (bs, bs + bs // 4, 2 * bs, 3 * bs - 1, 3 * bs):
            kp, kt = sc.rb_nz(ln), sc.rb_nz(min(ln, 2 * bs))
            for step in range(2):
                sc.ctr_set_key(kind, 0, kp)
                sc.ctr_encrypt(kind, 0, sc.rb(bs + 1))
                sc.ctr_set_tweaked_key(kind, 0, kt)
                sc.ctr_encrypt(kind, 0, sc.rb(bs + 1))
        for ln in lens:
            key = sc.rb_nz(max(ln, 1))[:ln] if ln else b""
            sc.ctr_set_tweaked_key(kind, 0, key if ln else b"", ln)
            if bs <= ln <= 2 * bs or ln % 7 == 0:
                sc.ctr_set_counter(kind, 0, sc.rb(bs))
                sc.ctr_encrypt(kind, 0, sc.rb(bs + 1))
        sc.ctr_set_tweaked_key(kind, 0, sc.rb_nz(2 * bs))
        sc.ctr_set_tweak(kind, 0, sc.rb_nz(bs))
        for h in HUGE + (0, bs - 1, 2 * bs + 1):
            sc.ctr_set_tweaked_key(kind, 0, sc.rb_nz(2 * bs), h)
            sc.ctr_set_key(kind, 0, sc.rb_nz(3 * bs), h if h > 3 * bs else (bs - 1 if h else 0))
            sc.ctr_set_tweak(kind, 0, sc.rb_nz(sc.rng.randrange(1, bs + 1)))
            sc.ctr_encrypt(kind, 0, sc.rb(bs + 1))
        sc.ctr_encrypt(kind, 0, sc.rb(bs))
        sc.ctr_cleanup(kind, 0)
        sc.reset("c10-par-%s" % kind)
        sc.par_init(kind, 0, cap=cap_for(kind))
        for ln in lens:
            key = sc.rb_nz(max(ln, 1))[:ln] if ln else b""
            sc.par_set_key(kind, 0, key if ln else b"", ln)
            if bs <= ln <= 3 * bs or ln % 7 == 0:
                sc.par_crypt(kind, 0, sc.rb(2 * bs), enc=True)
        for h in HUGE:
            sc.par_set_key(kind, 0, sc.rb_nz(3 * bs), h)
        sc.par_crypt(kind, 0, sc.rb(bs), enc=False)
        sc.par_cleanup(kind, 0)
    # Mantis: only 16-byte keys and 5..8 rounds
    sc.reset("c10-mantis")
    sc.mk_set_key(0, sc.rb(16), 6, 1)
    sc.ctr_init("mantis", 0, cap=cap_for("mantis"))
    sc.par_init("mantis", 0, cap=cap_for("mantis"))
    sc.ctr_set_key("mantis", 0, sc.rb(16), rounds=7)
    sc.par_set_key("mantis", 0, sc.rb(16), rounds=7, mode=0)
    for ln in list(range(0, 34)) + [2147483647, 4294967295]:
        for rounds in ((8,) if ln != 16 else range(0, 12)):
            key = sc.rb_nz(max(min(ln, 40), 1))[:min(ln, 40)]
            sc.mk_set_key(0, key, rounds, sc.rng.randrange(2), ln)
            sc.ctr_set_key("mantis", 0, key, ln, rounds=rounds)
            sc.par_set_key("mantis", 0, key, ln, rounds=rounds, mode=sc.rng.randrange(2))
            if ln % 5 == 0 or ln == 16:
                sc.mk_crypt(0, sc.rb(8))
                sc.ctr_encrypt("mantis", 0, sc.rb(9))
                sc.par_crypt("mantis", 0, sc.rb(16), tweak=sc.rb(16))
    for rounds in (2147483647, 4294967295, 13, 256 + 6, 65536 + 7, (1 << 29) + 5, (1 << 31) + 8):
        sc.mk_set_key(0, sc.rb(16), rounds, 1)
        sc.ctr_set_key("mantis", 0, sc.rb(16), rounds=rounds)
    sc.mk_crypt(0, sc.rb(8))
    sc.ctr_cleanup("mantis", 0)
    sc.par_cleanup("mantis", 0)
    return sc


def check_C10(work, tier, seed):
    out = Outcome()
    r, ok = run_mc(work, out, "MC_KeyLen", "MC_KeyLen", must_cover=("SetKey",))
    if not ok:
        mc_violation("C10", out, "MC_KeyLen", r)
    run_mc(work, out, "MC_KeyLen", "MCneg_KeyLen_shipped", expect_fail=True)
    b = build(work)
    # stack painted with a non-zero pattern: stale stack contents must not leak into a padded key
    scs = []
    for paint in ((165,) if tier == "quick" else (165, 255, 256)):
        sc = gen_c10(seed, tier)
        sc.lines.insert(2, "set paint=%d" % paint)
        scs.append(sc)
    lines = []
    for sc in scs:
        lines += conform(work, b, "C10", seed, sc.text(), out)
    # an optimising compiler can hide a tweakey row that a partial load forgot to clear (it sits in
    # a register that happens to be zero): the same scenario on unoptimised gcc and on clang
    for name, cc, opt in (("gcc-O0", "gcc", "-O0"), ("clang-O2", "clang", "-O2")):
        b2 = build(work, name=name, cc=cc, opt=opt)
        axis_compare(work, "C10", seed, out, lines, "%s, stack painted" % name, b2, scs[0].text(), "-" + name)
    note_distinct(out, lines, ("o", "len", "nr"))
    out.samples = sample_events([x for x in lines if "set_key" in x or "set_tweaked_key" in x], maxlen=200)
    return out, dict(
        level="model_checking",
        exhaustive=True,
        rule="Design: MC_KeyLen (TLC exhaustive): partial tweakey load as a word-wise model; for every length "
             "0..3bs+16 and the huge classes x entry point x prior state: accepted iff documented, loaded tweakey = "
             "zero-padded key, rejected => unchanged; the shipped load (16-bit word, unassigned rows) must fail. "
             "Code: EVERY length 0..3*bs+16 plus 2^31-1, 2^32-1 and two wrap-around classes for each of the 13 "
             "key-setting entry points (Mantis: every rounds value 0..11 and huge), non-zero key bytes, stack painted; "
             "schedule image and later outputs validated by TLC against the zero-padded key; rejected calls must "
             "return 0 and leave image and outputs unchanged. exhaustive refers to the length dimension.",
        assumptions=["key bytes sampled; lengths enumerated"])


CHECKS.update({"C03": check_C03, "C04": check_C04, "C07": check_C07, "C10": check_C10})


# ------------------------------------------------------------------ life cycle: C14 C15 C16 C17

def valid_key(sc, kind, tweaked=False):
    if kind == "mantis":
        return sc.rb(16)
    return sc.rb(BS[kind] * sc.rng.randrange(1, 3 if tweaked else 4))


def ctr_use_all(sc, kind, o, mid=False):
    """every CTR function once with valid arguments (results depend on the object's phase)"""
    bs = BS[kind]
    sc.ctr_set_key(kind, o, valid_key(sc, kind), rounds=6)
    if kind != "mantis":
        sc.ctr_set_tweaked_key(kind, o, valid_key(sc, kind, True))
    sc.ctr_set_tweak(kind, o, sc.rb(bs if kind != "mantis" else 8))
    sc.ctr_set_counter(kind, o, sc.rb(bs))
    sc.ctr_encrypt(kind, o, b"")                               # an empty request is still a call on the object
    sc.ctr_encrypt(kind, o, sc.rb(bs + 3 if mid else 2 * bs))


def par_use_all(sc, kind, o):
    bs = BS[kind]
    sc.par_set_key(kind, o, valid_key(sc, kind), rounds=6, mode=0)     # both Mantis modes (ignored by SKINNY)
    sc.par_set_key(kind, o, valid_key(sc, kind), rounds=6, mode=1)
    sc.par_crypt(kind, o, b"", enc=True, tweak=b"" if kind == "mantis" else None)
    if kind == "mantis":
        sc.par_swap(o)
        sc.par_crypt(kind, o, sc.rb(9 * bs), tweak=sc.rb(9 * bs))
    else:
        sc.par_crypt(kind, o, sc.rb(9 * bs), enc=True)
        sc.par_crypt(kind, o, sc.rb(2 * bs), enc=False)


def ctr_invalid_all(sc, kind, o, probe=None):
    """every class of invalid argument for every CTR function; `probe` (if given) is
    called after each one: valid calls whose results show any hidden state change"""
    bs = BS[kind]
    P = probe or (lambda: None)
    sc.ctr_set_key(kind, o, None, bs, rounds=6); P()                   # null key
    sc.ctr_set_key(kind, o, sc.rb(bs - 1), rounds=6); P()              # too short
    sc.ctr_set_key(kind, o, sc.rb(3 * bs + 1), rounds=6); P()          # too long
    if kind == "mantis":
        sc.ctr_set_key(kind, o, sc.rb(16), rounds=4); P()
        sc.ctr_set_key(kind, o, sc.rb(16), rounds=9); P()
        sc.ctr_set_tweak(kind, o, sc.rb(8), 7); P()
        sc.ctr_set_tweak(kind, o, sc.rb(9), 9); P()
    else:
        sc.ctr_set_tweaked_key(kind, o, None, bs); P()
        sc.ctr_set_tweaked_key(kind, o, sc.rb(bs - 1)); P()
        sc.ctr_set_tweaked_key(kind, o, sc.rb(2 * bs + 1)); P()
        sc.ctr_set_tweak(kind, o, sc.rb(bs), 0); P()
        sc.ctr_set_tweak(kind, o, sc.rb(bs + 1), bs + 1); P()
    sc.ctr_set_counter(kind, o, sc.rb(bs + 1), bs + 1); P()
    sc.ctr_set_counter(kind, o, None, bs + 1); P()
    sc.ctr_encrypt(kind, o, None, n=5); P()                            # null input
    sc.ctr_encrypt(kind, o, sc.rb(5), outnull=1); P()                  # null output
    sc.ctr_encrypt(kind, o, None, n=0); P()                            # null pointers stay invalid for an empty request
    sc.ctr_encrypt(kind, o, b"", outnull=1); P()


def par_invalid_all(sc, kind, o):
    bs = BS[kind]
    sc.par_set_key(kind, o, None, bs, rounds=6, mode=1)
    sc.par_set_key(kind, o, sc.rb(bs - 1), rounds=6, mode=1)
    sc.par_set_key(kind, o, sc.rb(3 * bs + 1), rounds=6, mode=1)
    if kind == "mantis":
        sc.par_set_key(kind, o, sc.rb(16), rounds=4, mode=1)
        sc.par_set_key(kind, o, sc.rb(16), rounds=9, mode=0)
    for n in (1, bs - 1, bs + 1, 9 * bs - 1):
        sc.par_crypt(kind, o, sc.rb(n), tweak=sc.rb(16 * bs) if kind == "mantis" else None)


def null_object_calls(sc, kind):
    bs = BS[kind]
    sc.ctr_init(kind, "null")
    sc.ctr_cleanup(kind, "null")
    sc.ctr_set_key(kind, "null", valid_key(sc, kind), rounds=6)
    if kind != "mantis":
        sc.ctr_set_tweaked_key(kind, "null", sc.rb(bs))
    sc.ctr_set_tweak(kind, "null", sc.rb(bs if kind != "mantis" else 8))
    sc.ctr_set_counter(kind, "null", sc.rb(bs))
    sc.ctr_encrypt(kind, "null", sc.rb(bs))
    sc.par_init(kind, "null")
    sc.par_cleanup(kind, "null")
    sc.par_set_key(kind, "null", valid_key(sc, kind), rounds=6, mode=1)
    sc.par_crypt(kind, "null", sc.rb(2 * bs), tweak=sc.rb(2 * bs) if kind == "mantis" else None)
    if kind == "mantis":
        sc.par_swap("null")


def gen_c14(seed, tier, cap_for=lambda k: 2):
    """every <object phase, function, invalid-argument class>, and invalid calls
    interleaved in valid histories whose later outputs must be unaffected"""
    sc = Sc(seed)
    thorough = tier == "thorough"
    for kind in ("s128", "s64", "mantis"):
        bs = BS[kind]
        cap = cap_for(kind)
        sc.reset("c14-null-%s" % kind)
        null_object_calls(sc, kind)
        # key schedules (public structs)
        sc.reset("c14-ks-%s" % kind)
        if kind == "mantis":
            for phase in ("unset", "set"):
                if phase == "set":
                    sc.mk_set_key(0, sc.rb(16), 7, 1)
                    sc.mk_set_tweak(0, sc.rb(8))
                sc.mk_set_key(0, None, 6, 1, 16)
                sc.mk_set_key("null", sc.rb(16), 6, 1)
                sc.mk_set_key(0, sc.rb(15), 6, 1)
                sc.mk_set_key(0, sc.rb(17), 6, 0)
                sc.mk_set_key(0, sc.rb(16), 4, 1)
                sc.mk_set_key(0, sc.rb(16), 9, 0)
                sc.mk_set_tweak(0, sc.rb(7), 7)
                sc.mk_set_tweak(0, sc.rb(9), 9)
                sc.mk_set_tweak("null", sc.rb(8))
                sc.mk_crypt(0, sc.rb(8))
        else:
            for phase in ("unset", "set"):
                if phase == "set":
                    sc.ks_set_key(kind, 0, valid_key(sc, kind))
                    sc.ks_set_tweaked_key(kind, 0, valid_key(sc, kind, True))
                    sc.ks_set_tweak(kind, 0, sc.rb(bs))
                sc.ks_set_key(kind, 0, None, bs)
                sc.ks_set_key(kind, "null", sc.rb(bs))
                sc.ks_set_key(kind, 0, sc.rb(bs - 1))
                sc.ks_set_key(kind, 0, sc.rb(3 * bs + 1))
                sc.ks_set_tweaked_key(kind, 0, None, bs)
                sc.ks_set_tweaked_key(kind, "null", sc.rb(bs))
                sc.ks_set_tweaked_key(kind, 0, sc.rb(bs - 1))
                sc.ks_set_tweaked_key(kind, 0, sc.rb(2 * bs + 1))
                sc.ks_set_tweak(kind, 0, sc.rb(bs), 0)
                sc.ks_set_tweak(kind, 0, sc.rb(bs + 1), bs + 1)
                sc.ks_set_tweak(kind, "null", sc.rb(bs))
                if phase == "set":
                    sc.ks_crypt(True, kind, 0, sc.rb(bs))
                    sc.ks_crypt(True, kind, 0, sc.rb(bs), t=1)
                    sc.ks_set_tweak(kind, 0, sc.rb_nz(bs - 1))
                    sc.ks_crypt(True, kind, 0, sc.rb(bs), t=1)
        # CTR / parallel objects in every phase
        for phase in ("zeroed", "live", "keyed", "mid", "tweaked", "tmid", "failed", "dead"):
            sc.reset("c14-ctr-%s-%s" % (kind, phase))
            if phase == "failed":
                sc.ctr_init(kind, 0, cap=cap, fail=1)
            elif phase != "zeroed":
                sc.ctr_init(kind, 0, cap=cap)
            if phase in ("keyed", "mid", "dead"):
                sc.ctr_set_key(kind, 0, valid_key(sc, kind), rounds=7)
                sc.ctr_set_counter(kind, 0, sc.rb(bs))
            if phase in ("tweaked", "tmid"):
                # key AND a non-zero tweak in place: a rejected call must not disturb either
                if kind == "mantis":
                    sc.ctr_set_key(kind, 0, sc.rb(16), rounds=6)
                    sc.ctr_set_tweak(kind, 0, sc.rb_nz(8))
                else:
                    sc.ctr_set_tweaked_key(kind, 0, valid_key(sc, kind, True))
                    sc.ctr_set_tweak(kind, 0, sc.rb_nz(bs))
                sc.ctr_set_counter(kind, 0, sc.rb(bs))
            if phase in ("mid", "tmid"):
                sc.ctr_encrypt(kind, 0, sc.rb(bs + 5))
            if phase == "dead":
                sc.ctr_encrypt(kind, 0, sc.rb(bs + 5))
                sc.ctr_cleanup(kind, 0)
            if phase in ("tweaked", "tmid"):
                def probe(kind=kind, bs=bs):
                    # a tweak CHANGE after the rejected call exposes a stale or wiped remembered tweak
                    sc.ctr_set_tweak(kind, 0, sc.rb_nz(8 if kind == "mantis" else sc.rng.randrange(1, bs + 1)))
                    sc.ctr_encrypt(kind, 0, sc.rb(bs + 1))
                ctr_invalid_all(sc, kind, 0, probe)
            elif phase in ("keyed", "mid"):
                ctr_invalid_all(sc, kind, 0, lambda kind=kind: sc.ctr_encrypt(kind, 0, sc.rb(3)))
            else:
                ctr_invalid_all(sc, kind, 0)
            # valid calls afterwards: in live phases the stream continues undisturbed,
            # in inert phases every call returns 0
            sc.ctr_encrypt(kind, 0, sc.rb(2 * bs + 1))
            ctr_use_all(sc, kind, 0, mid=True)
            ctr_invalid_all(sc, kind, 0)
            sc.ctr_encrypt(kind, 0, sc.rb(bs))
            sc.ctr_cleanup(kind, 0)
            sc.quiesce()
            sc.reset("c14-par-%s-%s" % (kind, phase))
            if phase == "failed":
                sc.par_init(kind, 0, cap=cap, fail=1)
            elif phase != "zeroed":
                sc.par_init(kind, 0, cap=cap)
            if phase in ("keyed", "mid", "dead"):
                sc.par_set_key(kind, 0, valid_key(sc, kind), rounds=7, mode=1)
            if phase == "dead":
                sc.par_cleanup(kind, 0)
            par_invalid_all(sc, kind, 0)
            par_use_all(sc, kind, 0)
            par_invalid_all(sc, kind, 0)
            sc.par_crypt(kind, 0, sc.rb(3 * bs), tweak=sc.rb(3 * bs) if kind == "mantis" else None)
            sc.par_cleanup(kind, 0)
            sc.quiesce()
    return sc


def gen_c15(seed, tier, cap_for=lambda k: 2):
    """random interleavings of init / set-up / processing / cleanup / repeated
    cleanup / use after cleanup / re-init over several objects of mixed kinds"""
    sc = Sc(seed)
    thorough = tier == "thorough"
    for i in range(60 if thorough else 8):
        sc.reset("c15-rand-%d" % i)
        life = {}
        objs = [(fam, kind, o) for fam in ("ctr", "par") for kind in ("s128", "s64", "mantis") for o in (0, 1)]
        sc.rng.shuffle(objs)
        objs = objs[:4]
        for step in range(sc.rng.randrange(10, 40 if thorough else 24)):
            fam, kind, o = sc.rng.choice(objs)
            st = life.get((fam, kind, o), "zeroed")
            r = sc.rng.random()
            if r < 0.3 and st != "live":
                fail = 1 if sc.rng.random() < 0.15 else None
                pre = sc.rng.choice([None, 0, 255, 0x5A]) if st == "zeroed" else None
                (sc.ctr_init if fam == "ctr" else sc.par_init)(kind, o, cap=cap_for(kind), fail=fail, prefill=pre)
                life[(fam, kind, o)] = "failed" if fail else "live"
            elif r < 0.5:
                (sc.ctr_cleanup if fam == "ctr" else sc.par_cleanup)(kind, o)
                if st == "live":
                    life[(fam, kind, o)] = "dead"
                if sc.rng.random() < 0.4:
                    (sc.ctr_cleanup if fam == "ctr" else sc.par_cleanup)(kind, o)     # repeated cleanup
            elif r < 0.62:
                # refused calls and processing before any key: whatever they do inside, the object's
                # resources are still released exactly once afterwards
                if fam == "ctr":
                    if sc.rng.random() < 0.5:
                        ctr_invalid_all(sc, kind, o)
                    else:
                        sc.ctr_encrypt(kind, o, sc.rb(BS[kind] + 1))
                else:
                    if sc.rng.random() < 0.5:
                        par_invalid_all(sc, kind, o)
                    else:
                        sc.par_crypt(kind, o, sc.rb(9 * BS[kind]), enc=True,
                                     tweak=sc.rb(72) if kind == "mantis" else None)
            else:
                if fam == "ctr":
                    ctr_use_all(sc, kind, o, mid=sc.rng.random() < 0.5)
                else:
                    par_use_all(sc, kind, o)
        for fam, kind, o in objs:
            (sc.ctr_cleanup if fam == "ctr" else sc.par_cleanup)(kind, o)
        sc.quiesce()
    # reuse after cleanup for several cycles
    for kind in ("s128", "s64", "mantis"):
        sc.reset("c15-cycles-%s" % kind)
        for cyc in range(4):
            sc.ctr_init(kind, 0, cap=cap_for(kind))
            sc.par_init(kind, 0, cap=cap_for(kind))
            if cyc:
                # a re-initialised object starts from scratch: processing before any key is what it was
                # in the first life, and refused calls in between do not disturb what cleanup releases
                sc.ctr_encrypt(kind, 0, sc.rb(BS[kind] + 1))
                sc.par_crypt(kind, 0, sc.rb(9 * BS[kind]), enc=True, tweak=sc.rb(72) if kind == "mantis" else None)
            if cyc % 2 == 0:
                ctr_invalid_all(sc, kind, 0)
                par_invalid_all(sc, kind, 0)
            ctr_use_all(sc, kind, 0)
            par_use_all(sc, kind, 0)
            if cyc % 2 == 1:
                ctr_invalid_all(sc, kind, 0)
                par_invalid_all(sc, kind, 0)
            sc.ctr_cleanup(kind, 0)
            sc.par_cleanup(kind, 0)
            ctr_use_all(sc, kind, 0)       # use after cleanup: every call returns 0
            par_use_all(sc, kind, 0)
            sc.ctr_cleanup(kind, 0)
            sc.par_cleanup(kind, 0)
            sc.quiesce()
            if cyc % 2 == 1:
                # a re-initialisation that runs out of memory, on a handle the caller scribbled over
                sc.ctr_init(kind, 0, cap=cap_for(kind), fail=1, prefill=0xA5)
                sc.par_init(kind, 0, cap=cap_for(kind), fail=1, prefill=0x5A)
                sc.ctr_cleanup(kind, 0)
                par_use_all(sc, kind, 0)
                sc.par_cleanup(kind, 0)
                ctr_use_all(sc, kind, 0)
                sc.quiesce()
    return sc


def gen_c16_probe(caps):
    """one successful init per <function, back end>: tells how many allocation requests it makes"""
    sc = Sc(0, placements=False)
    for kind in ("s128", "s64", "mantis"):
        for cap in caps[kind]:
            for fam in ("ctr", "par"):
                sc.reset("c16-probe-%s-%s-cap%d" % (fam, kind, cap))
                (sc.ctr_init if fam == "ctr" else sc.par_init)(kind, 0, cap=cap)
                (sc.ctr_cleanup if fam == "ctr" else sc.par_cleanup)(kind, 0)
    return sc


def gen_c16(seed, tier, caps, na_map):
    """complete fault enumeration: each init x back end x prior handle content x EACH allocation
    request the init makes (as observed on a successful init of the same function and back end)"""
    sc = Sc(seed)
    n = 0
    for kind in ("s128", "s64", "mantis"):
        for cap in caps[kind]:
            for fam in ("ctr", "par"):
              for nth in range(1, na_map.get((fam, kind, cap), 1) + 1):
                for prior in ("zero", "ff", "5a", "a5ramp", "dead", "failed"):
                    sc.reset("c16-%s-%s-cap%d-%s-req%d" % (fam, kind, cap, prior, nth))
                    n += 1
                    init = sc.ctr_init if fam == "ctr" else sc.par_init
                    cleanup = sc.ctr_cleanup if fam == "ctr" else sc.par_cleanup
                    useall = (lambda: ctr_use_all(sc, kind, 0)) if fam == "ctr" else (lambda: par_use_all(sc, kind, 0))
                    pre = {"zero": 0, "ff": 255, "5a": 0x5A, "a5ramp": 0xA5}.get(prior)
                    if prior == "dead":
                        init(kind, 0, cap=cap)
                        useall()
                        cleanup(kind, 0)
                    if prior == "failed":
                        init(kind, 0, cap=cap, fail=1, prefill=0x33)
                    init(kind, 0, cap=cap, fail=nth, prefill=pre)
                    sc.quiesce()                       # nothing leaked
                    if sc.rng.random() < 0.5:
                        cleanup(kind, 0)               # cleanup is safe ...
                        useall()                       # ... and every other call reports failure
                    else:
                        useall()
                        cleanup(kind, 0)
                    cleanup(kind, 0)
                    init(kind, 0, cap=cap)             # the object can be initialised and used afterwards
                    useall()
                    cleanup(kind, 0)
                    sc.quiesce()
    return sc, n


def gen_c17(seed, tier, cap_for=lambda k: 2):
    """histories that make every region of the context dirty before cleanup"""
    sc = Sc(seed)
    for kind in ("s128", "s64", "mantis"):
        bs = BS[kind]
        for variant in range(4 if tier == "thorough" else 2):
            sc.reset("c17-ctr-%s-%d" % (kind, variant))
            sc.ctr_init(kind, 0, cap=cap_for(kind))
            if kind == "mantis":
                sc.ctr_set_key(kind, 0, sc.rb_nz(16), rounds=8)
                sc.ctr_set_tweak(kind, 0, sc.rb_nz(8))
            elif variant % 2 == 0:
                sc.ctr_set_key(kind, 0, sc.rb_nz(3 * bs))
            else:
                sc.ctr_set_tweaked_key(kind, 0, sc.rb_nz(2 * bs))
                sc.ctr_set_tweak(kind, 0, sc.rb_nz(bs))
            sc.ctr_set_counter(kind, 0, sc.rb_nz(bs))
            sc.ctr_encrypt(kind, 0, sc.rb(8 * bs))            # >= 1 full batch
            sc.ctr_encrypt(kind, 0, sc.rb(bs + 3))            # plus a partial one: offset mid-buffer
            sc.ctr_cleanup(kind, 0)
            sc.reset("c17-par-%s-%d" % (kind, variant))
            sc.par_init(kind, 0, cap=cap_for(kind))
            sc.par_set_key(kind, 0, sc.rb_nz(16 if kind == "mantis" else 3 * bs), rounds=8, mode=variant % 2)
            sc.par_crypt(kind, 0, sc.rb(9 * bs), tweak=sc.rb(9 * bs) if kind == "mantis" else None)
            sc.par_cleanup(kind, 0)
    return sc


def life_mc(work, out, pid, tier):
    r, ok = run_mc(work, out, "MC_Life", "MC_Life",
                   must_cover=("CallerZero", "CallerJunk", "DoInit", "DoUse", "DoCleanup"))
    if not ok:
        mc_violation(pid, out, "MC_Life", r)
    run_mc(work, out, "MC_Life", "MCneg_Life_shipped", expect_fail=True)


LIFE_ASSUME = ["design-level exhaustiveness within MC_Life's constants (2 objects, 3 blocks, 7 calls)",
               "calloc/free of the library observed through -Wl,--wrap; released blocks are quarantined PROT_NONE"]


def check_C14(work, tier, seed):
    out = Outcome()
    life_mc(work, out, "C14", tier)
    b = build(work)
    lines = backend_sweep(work, b, "C14", seed, lambda cf: gen_c14(seed, tier, cf), out)
    # spec -> impl: one call sequence per transition of the abstract CTR machine
    lines += backend_sweep(work, b, "C14", seed + 77, lambda cf: graph_ctr_scenarios(work, seed, cf, Outcome()), out)
    graph_ctr_scenarios(work, seed, lambda k: 2, out, kinds=())      # records graph size in the evidence
    lines += backend_sweep(work, b, "C14", seed + 81, lambda cf: graph_par_scenarios(work, seed, cf, Outcome()), out)
    graph_par_scenarios(work, seed, lambda k: 2, out, kinds=())
    note_distinct(out, lines, ("o", "len", "n", "nr", "ret", "key_null", "tweak_null", "ctr_null", "in_null", "outnull"))
    out.samples = sample_events([x for x in lines if '"ret":0' in x], maxlen=240)
    return out, dict(
        level="model_checking",
        rule="Design: MC_Life (TLC exhaustive): implementation-shaped handle/heap model, all sequences of caller "
             "zero/junk, init (incl. failure), use, cleanup over 2 objects: RetContract, NoCrash, NoLeak, "
             "FailedIsInert; shipped init must fail. Code: every <object phase in zeroed/live/keyed/mid-stream/"
             "failed/dead> x <public function> x <invalid-argument class> (NULL object/key/data, length low/high, "
             "rounds, ragged size) per kind and back end, surrounded by valid calls whose outputs the model predicts "
             "as if the invalid call had not been made; arenas compared for stray writes; all validated by TLC.",
        assumptions=LIFE_ASSUME)


def check_C15(work, tier, seed):
    out = Outcome()
    life_mc(work, out, "C15", tier)
    b = build(work)
    lines = backend_sweep(work, b, "C15", seed, lambda cf: gen_c15(seed, tier, cf), out)
    note_distinct(out, lines, ("o", "ret", "lv", "nf", "fail"))
    out.samples = sample_events([x for x in lines if "cleanup" in x or "init" in x], maxlen=200)
    return out, dict(
        level="model_checking",
        rule="Design: MC_Life (see C14): NoLeak, FreeOnce, RetContract over all interleavings. Code: random "
             "interleavings of init/set-up/processing/cleanup/repeated cleanup/use-after-cleanup/re-init over 4 "
             "objects of mixed kinds, and 4 reuse cycles per kind, on every back end; the trace carries the "
             "allocator activity of every call (frees, invalid frees, live blocks) and is validated by TLC; released "
             "blocks are PROT_NONE so a use-after-free is a crash event (no spec action).",
        assumptions=LIFE_ASSUME)


def check_C16(work, tier, seed):
    out = Outcome()
    life_mc(work, out, "C16", tier)
    b = build(work)
    # pass 1: how many allocation requests does each init make on each back end?
    na_map = {}
    for ln in run_drv(b, gen_c16_probe(CAPS).text()):
        if '_init"' in ln:
            ev = json.loads(ln)
            fam = "ctr" if ev["e"] == "ctr_init" else "par"
            na_map[(fam, ev["k"], ev.get("cap", 2))] = max(1, ev.get("na", 1))
    out.notes.append("allocation requests per init: %s" % sorted(set(na_map.values())))
    sc, n = gen_c16(seed, tier, CAPS, na_map)
    lines = conform(work, b, "C16", seed, sc.text(), out)
    for ln in lines:
        if '"failed":1' in ln:
            out.distinct.add(hash(ln))
    out.samples = sample_events([x for x in lines if '"failed":1' in x], maxlen=240)
    return out, dict(
        level="fault_enumeration",
        exhaustive=True,
        rule="Complete enumeration: each of the six init functions x each back end (cap) x prior handle content "
             "{zero, 0xFF, 0x5A, 0xA5, image of a cleaned-up object, image of a failed init} x failure of EACH "
             "allocation request the init makes (counted on a successful init of the same function and back end; "
             "%d fault cases); then quiesce (no leak), cleanup and every other call in "
             "both orders (must be safe and return 0), successful re-init and normal use. Validated by TLC against "
             "the contract (InitOutcome: failed == dead). distinct = distinct failing-init events." % n,
        assumptions=LIFE_ASSUME + ["the number of allocation requests of an init does not depend on the prior content "
                                   "of the caller's object (it is measured on a zeroed one)"])


def check_C17(work, tier, seed):
    out = Outcome()
    life_mc(work, out, "C17", tier)
    b = build(work)
    lines = backend_sweep(work, b, "C17", seed, lambda cf: gen_c17(seed, tier, cf), out)
    # spec -> impl: cleanup IMMEDIATELY after every transition of the CTR and parallel machines with
    # key-size classes (long -> short re-keying, buffer used up exactly, position just reset, ...)
    lines += backend_sweep(work, b, "C17", seed + 77,
                           lambda cf: graph_ctr_scenarios(work, seed, cf, Outcome(), cfg="Gen_Ctr_sizes", probe=False), out)
    lines += backend_sweep(work, b, "C17", seed + 81,
                           lambda cf: graph_par_scenarios(work, seed, cf, Outcome(), cfg="Gen_Par_sizes", probe=False), out)
    graph_ctr_scenarios(work, seed, lambda k: 2, out, kinds=(), cfg="Gen_Ctr_sizes")
    graph_par_scenarios(work, seed, lambda k: 2, out, kinds=(), cfg="Gen_Par_sizes")
    lines += conform(work, b, "C17", seed + 1, gen_c15(seed + 1, "quick").text(), out, tag="-hist")
    note_distinct(out, lines, ("o", "nz", "nf", "cap"))
    out.samples = sample_events([x for x in lines if "cleanup" in x], maxlen=200)
    return out, dict(
        level="model_checking",
        rule="Design: MC_Life WipedAtFree (every block is clean when released) over all interleavings. Code: "
             "histories that dirty every region of the context (round keys, tweak, counters, keystream buffer with "
             "the offset mid-buffer) before cleanup, plus the random life-cycle histories, for every kind and back "
             "end (context layouts differ); cleanup immediately after EVERY transition of the CTR and parallel "
             "machines with key-size classes (state graphs Gen_Ctr_sizes: 15 states/471 edges, Gen_Par_sizes), so "
             "that every final context state is reached: re-keyed long->short, buffer exactly used up, position "
             "just reset, failed/never keyed; the wrapped free() counts the non-zero bytes of the whole block as "
             "allocated before releasing it, the trace spec requires 0 at every cleanup.",
        assumptions=LIFE_ASSUME)


CHECKS.update({"C14": check_C14, "C15": check_C15, "C16": check_C16, "C17": check_C17})


# ------------------------------------------------------------------ C13 back-end selection

def gen_c13(seed, tier):
    sc = Sc(seed)
    n = 200 if tier == "thorough" else 40
    garb = [0, 1, 7, 0xFFFFFFFF, 0xFFFFFFFFFFFFFFFF, 0x80000000, 0xDEADBEEFCAFEF00D]
    for kind in ("s128", "s64", "mantis"):
        for cap in (2, 1, 0):
            sc.reset("c13-%s-cap%d" % (kind, cap))
            for i in range(n):
                g = garb[i % len(garb)] if i % 3 else sc.rng.getrandbits(64)
                if i % 11 == 0:
                    sc.raw("set paint=%d" % sc.rng.choice([0, 255, 165, 256]))
                sc.ctr_init(kind, i % 8, cap=cap, garbage=hex(g), prefill=sc.rng.choice([None, 0, 255]))
                sc.par_init(kind, i % 8, cap=cap, garbage=hex(g ^ 0x5555))
                sc.ctr_cleanup(kind, i % 8)
                sc.par_cleanup(kind, i % 8)
            sc.raw("set paint=-1")
            # selection under memory pressure: each allocation request of an init refused in turn; an
            # init that reports success carries the widest back end all the same, and the inits after it too
            for nth in (1, 2, 3):
                sc.ctr_init(kind, 0, cap=cap, fail=nth, garbage=hex(sc.rng.getrandbits(64)))
                sc.ctr_cleanup(kind, 0)
                sc.par_init(kind, 0, cap=cap, fail=nth)
                sc.par_cleanup(kind, 0)
                sc.ctr_init(kind, 1, cap=cap)
                sc.par_init(kind, 1, cap=cap)
                sc.ctr_cleanup(kind, 1)
                sc.par_cleanup(kind, 1)
        # without any cap argument (cap stays at its default) and interleaved kinds
    sc.reset("c13-mixed")
    for i in range(n):
        kind = sc.rng.choice(("s128", "s64", "mantis"))
        sc.ctr_init(kind, 0, garbage=hex(sc.rng.getrandbits(64)))
        sc.par_init(kind, 0, garbage=hex(sc.rng.getrandbits(64)))
        if i % 5 == 0:
            sc.ctr_set_key(kind, 0, valid_key(sc, kind), rounds=6)
            sc.ctr_encrypt(kind, 0, sc.rb(70))
        sc.ctr_cleanup(kind, 0)
        sc.par_cleanup(kind, 0)
    return sc


CPU_MODELS = [
    # (description, maxleaf, sse2, osxsave, avx2, top, noise)
    ("AVX2 machine, other feature bits clear", 13, 1, 1, 1, 0, 0),
    ("AVX2 machine, every other feature bit set", 22, 1, 1, 1, 1, 1),
    ("leaf 7 is the highest leaf", 7, 1, 1, 1, 0, 1),
    ("SSE2 machine: every leaf-7 bit but AVX2 set", 13, 1, 1, 0, 0, 1),
    ("SSE2 machine, all feature bits clear", 13, 1, 0, 0, 0, 0),
    ("no SSE2: every leaf-1 EDX bit but SSE2 set", 13, 0, 1, 0, 0, 1),
    ("highest leaf 6, out-of-range leaves answer zeros", 6, 1, 1, 0, 0, 0),
    ("highest leaf 5: leaf 7 answers with the highest leaf's data, all ones", 5, 1, 1, 0, 1, 0),
    ("highest leaf 2: the same", 2, 1, 1, 1, 1, 1),
    ("highest leaf 1, no SSE2", 1, 0, 0, 0, 1, 0),
    ("AVX2 flag set but the OS has not enabled the YMM state (OSXSAVE clear)", 13, 1, 0, 1, 0, 0),
    ("the same with every other bit set", 20, 1, 0, 1, 1, 1),
]


def gen_c13_cpus(seed, tier):
    """the real probes on every CPU model above (CPUID answered by the driver), every kind and cap"""
    sc = Sc(seed + 130)
    for mi, (desc, maxleaf, sse2, osx, avx2, top, noise) in enumerate(CPU_MODELS):
        sc.reset("c13-cpu-%d" % mi)
        sc.raw("cpu maxleaf=%d sse2=%d osxsave=%d avx2=%d top=%d noise=%d" % (maxleaf, sse2, osx, avx2, top, noise))
        for kind in ("s128", "s64", "mantis"):
            bs = BS[kind]
            for cap in (2, 1, 0):
                sc.ctr_init(kind, 0, cap=cap, garbage=hex(sc.rng.getrandbits(64)))
                sc.par_init(kind, 0, cap=cap, garbage=hex(sc.rng.getrandbits(64)))
                if cap == 2:
                    # the object works on the back end it was given
                    sc.ctr_set_key(kind, 0, valid_key(sc, kind), rounds=6)
                    sc.ctr_encrypt(kind, 0, sc.rb(9 * bs + 1))
                    sc.par_set_key(kind, 0, valid_key(sc, kind), rounds=6, mode=1)
                    sc.par_crypt(kind, 0, sc.rb(9 * bs), enc=True, tweak=sc.rb(72) if kind == "mantis" else None)
                sc.ctr_cleanup(kind, 0)
                sc.par_cleanup(kind, 0)
        sc.raw("cpu off=1")
        sc.raw("env")
    return sc


def cpuid_faulting_available(b):
    lines = run_drv(b, "env\ncpu maxleaf=13\ncpu off=1\n")
    return any('"e":"cpu"' in ln and '"on":1' in ln and '"ok":1' in ln for ln in lines)


def check_C13(work, tier, seed):
    out = Outcome()
    r, ok = run_mc(work, out, "MC_Probe", "MC_Probe", must_cover=("DoInit",))
    if not ok:
        mc_violation("C13", out, "MC_Probe", r)
    run_mc(work, out, "MC_Probe", "MCneg_Probe_shipped", expect_fail=True)
    run_mc(work, out, "MC_Probe", "MCneg_Probe_nomaxleaf", expect_fail=True)
    run_mc(work, out, "MC_Probe", "MCneg_Probe_noos", expect_fail=True)
    b = build(work)
    lines = conform(work, b, "C13", seed, gen_c13(seed, tier).text(), out)
    # the real probe code on every x86 CPU model of CPU_MODELS (CPUID answered by the driver)
    if cpuid_faulting_available(b):
        lines += conform(work, b, "C13", seed, gen_c13_cpus(seed, tier).text(), out, tag="-cpus")
        out.notes.append("CPU models emulated by CPUID faulting: " + "; ".join(m[0] for m in CPU_MODELS))
    else:
        out.notes.append("CPU-model scenarios SKIPPED: CPUID faulting (arch_prctl ARCH_SET_CPUID) is not available on this host")
    # fresh processes in which the VERY FIRST library call is each init function in turn
    # (no env/layout call before it), followed by the other inits: a probe result that is
    # cached, or that depends on which probe ran first, shows as an unstable selection
    firsts = [(fam, kind) for fam in ("ctr", "par") for kind in ("s128", "s64", "mantis")]
    env_line = lines[0]
    for fam, kind in firsts:
        t = ["reset sc=c13-first-%s-%s" % (fam, kind)]
        order = [(fam, kind)] + [x for x in firsts if x != (fam, kind)] + [(fam, kind)]
        for i, (f2, k2) in enumerate(order):
            t.append("%s_init k=%s o=%d" % (f2, k2, i % 8))
        for i, (f2, k2) in enumerate(order):
            t.append("%s_cleanup k=%s o=%d" % (f2, k2, i % 8))
        fl = run_drv(b, "\n".join(t) + "\n")
        out.events += len(fl)
        sub = Outcome()
        conform_lines(work, "C13", seed, [env_line] + fl, "env\n" + "\n".join(t) + "\n", sub, tag="-first-%s-%s" % (fam, kind))
        out.merge(sub)
        lines += fl
    # the hook-free build must select the same back ends (the cap defaults to "no cap")
    b0 = build(work, name="nohook", hooks=False)
    sc0 = gen_c13(seed, "quick")
    sc0.lines = [ln for ln in sc0.lines if "cap=" not in ln or "cap=2" in ln]
    lines0 = conform(work, b0, "C13", seed, sc0.text(), out, tag="-nohook")
    # ... on every CPU model too: the shipped (guard-off) library, no cap involved at all
    if cpuid_faulting_available(b0):
        scc = gen_c13_cpus(seed, tier)
        scc.lines = [ln for ln in scc.lines if "cap=" not in ln or "cap=2" in ln]
        lines0 += conform(work, b0, "C13", seed, scc.text(), out, tag="-nohook-cpus")
    # builds in which a back end is NOT compiled in although the CPU supports it: the selection must
    # stop at what is compiled in (and the objects must work)
    for name, v128, v256 in (("no256", 1, 0), ("no128", 0, 1), ("noSIMD", 0, 0)):
        bx = build(work, name=name, defs=["SKINNY_VERIF_VEC128_MATH=%d" % v128, "SKINNY_VERIF_VEC256_MATH=%d" % v256],
                   built128=v128, built256=v256)
        scx = Sc(seed + 3)
        for kind in ("s128", "s64", "mantis"):
            for cap in (2, 1, 0):
                scx.reset("c13-%s-%s-cap%d" % (name, kind, cap))
                scx.ctr_init(kind, 0, cap=cap, prefill=0xA5)
                scx.par_init(kind, 0, cap=cap, prefill=0xFF)
                scx.ctr_set_key(kind, 0, valid_key(scx, kind), rounds=6)
                scx.ctr_encrypt(kind, 0, scx.rb(9 * BS[kind] + 3))
                scx.par_set_key(kind, 0, valid_key(scx, kind), rounds=6, mode=1)
                scx.par_crypt(kind, 0, scx.rb(17 * BS[kind]), tweak=scx.rb(17 * 8) if kind == "mantis" else None)
                scx.ctr_cleanup(kind, 0)
                scx.par_cleanup(kind, 0)
        lines0 += conform(work, bx, "C13", seed, scx.text(), out, tag="-" + name)
    for ln in lines + lines0:
        if '_init"' in ln:
            ev = json.loads(ln)
            out.distinct.add((ev.get("e"), ev.get("k"), ev.get("cap"), ev.get("be"), ev.get("psize")))
    out.samples = sample_events([x for x in lines if '_init"' in x], maxlen=220) + [lines[0]]
    return out, dict(
        level="model_checking",
        rule="Design: MC_Probe (TLC exhaustive): CPU models (SSE2 x AVX2) x build configurations x caps x arbitrary "
             "sub-leaf register contents, probe and cascade as the code performs them: SelectWidest, SelectStable, "
             "NeverExceeds, psize = f(back end); the as-shipped probe (sub-leaf register not set) must fail. Code: "
             "every init of all six object kinds in many calling contexts (caller-saved registers loaded with seeded "
             "garbage immediately before the call, stack painted, prior handle contents), under each cap and in a "
             "hook-free build; back end identified by vtable identity / parallel_size and compared by TLC with "
             "Widest(env) where env is the harness's own CPUID/XGETBV reading. distinct = distinct "
             "(function, kind, cap, back end, psize) observations.",
        assumptions=["OS enables YMM state whenever CPUID reports AVX2 (explicit environment assumption of MC_Probe; "
                     "the harness's ground truth does test XGETBV)",
                     "only this host's CPU can be observed; lesser CPUs are emulated downward by hook H2"])


CHECKS.update({"C13": check_C13})


# ------------------------------------------------------------------ composite scenario set (C11, C12, C18, C19 reuse)

def sc_executions(sc):
    """split a scenario into header lines and executions (lists of lines)"""
    head, execs, cur = [], [], None
    for ln in sc.lines:
        if ln.startswith("reset"):
            if cur is not None:
                execs.append(cur)
            cur = [ln]
        elif cur is None:
            head.append(ln)
        else:
            cur.append(ln)
    if cur is not None:
        execs.append(cur)
    return head, execs


def gen_composite(seed, tier, cap_for=lambda k: 2, extra_head=()):
    """the scenario sets of C01-C07, C10, C14 in one scenario text"""
    parts = [gen_c01(seed, "quick"), gen_c02(seed, "quick"), gen_c03(seed, "quick", cap_for),
             gen_c04(seed, "quick", cap_for), gen_ctr(seed, "quick", cap_for, c06=True),
             gen_c07(seed, "quick", cap_for), gen_c10(seed, "quick", cap_for), gen_c14(seed, "quick", cap_for)]
    # the CTR and parallel scenario sets again under the lower back-end caps, so that every build of a
    # matrix and every thread exercises each back end it has compiled in (not only the widest)
    if cap_for("s128") == 2:
        for cap in (1, 0):
            cf = (lambda k, cap=cap: cap)
            parts += [gen_ctr(seed + 10 + cap, "quick", cf, c06=True), gen_c07(seed + 10 + cap, "quick", cf),
                      gen_c03(seed + 10 + cap, "quick", cf)]
    if tier == "thorough":
        parts += [gen_c15(seed, "quick", cap_for), gen_c17(seed, "quick", cap_for),
                  gen_ctr(seed + 7, "quick", cap_for, c06=True), gen_c04(seed + 7, "quick", cap_for)]
    lines = ["env", "layout"] + list(extra_head)
    n = 0
    for p in parts:
        h, ex = sc_executions(p)
        for e in ex:
            n += 1
            # make execution tags unique across parts
            e = [e[0] + "-%d" % n] + e[1:]
            lines += e
    return "\n".join(lines) + "\n"


def thin(text, keep_every, offset=0):
    """keep every n-th execution of a scenario text (header kept)"""
    head, execs, cur = [], [], None
    for ln in text.split("\n"):
        if not ln:
            continue
        if ln.startswith("reset"):
            if cur is not None:
                execs.append(cur)
            cur = [ln]
        elif cur is None:
            head.append(ln)
        else:
            cur.append(ln)
    if cur is not None:
        execs.append(cur)
    kept = [e for i, e in enumerate(execs) if i % keep_every == offset % keep_every]
    return "\n".join(head + [ln for e in kept for ln in e]) + "\n"


def axis_compare(work, pid, seed, out, ref_lines, label, b, text, tag):
    """run `text` on build b, accept executions identical to the reference,
    validate differing ones with TLC (their rejection point is the diagnosis)"""
    lines = run_drv(b, text)
    out.events += len(lines)
    head, diff = compare_axis(work, ref_lines, lines, label, pid, seed, out)
    if diff:
        out.notes.append("%s: %d execution(s) differ from the reference" % (label, len(diff)))
        sub = Outcome()
        conform_lines(work, pid, seed, head + [ln for ex in diff for ln in ex], text, sub, tag=tag)
        if not sub.violations:
            # differs from the reference although both satisfy the contract: impossible for a
            # deterministic contract unless an unmodelled field differs -- report it
            p = save_replay(pid, "%s%s" % (seed, tag), 900, head + diff[0], "trace differs from reference: " + label)
            sub.violations.append(("differs:" + label, p,
                                   "execution %s differs from the validated reference under %s although TLC accepts both"
                                   % (diff[0][0][:80], label)))
        out.merge(sub)
    return lines


def check_C11(work, tier, seed):
    out = Outcome()
    r, ok = run_mc(work, out, "MC_Det", "MC_Det", must_cover=("Call",))
    if not ok:
        mc_violation("C11", out, "MC_Det", r)
    b_ref = build(work, name="gcc-O3")
    text = gen_composite(seed, tier)
    vt = text if tier == "thorough" else thin(text, 3, seed)
    ref_v = conform(work, b_ref, "C11", seed, vt, out, tag="-ref")
    ref = run_drv(b_ref, text)
    out.events += len(ref)
    # axis 1: stack / handle contents (separate processes each)
    paints = (0, 255, 165, 256)
    for p in paints:
        t2 = text.replace("env\nlayout\n", "env\nlayout\nset paint=%d\n" % p, 1)
        axis_compare(work, "C11", seed, out, ref, "stack painted %d" % p, b_ref, t2, "-paint%d" % p)
    # axis 2: optimisation level and compiler (stack painted too)
    builds = [("gcc-O0", "gcc", "-O0"), ("clang-O2", "clang", "-O2")]
    if tier == "thorough":
        builds += [("gcc-O1", "gcc", "-O1"), ("gcc-O2", "gcc", "-O2"), ("clang-O0", "clang", "-O0"),
                   ("clang-O3", "clang", "-O3")]
    for name, cc, opt in builds:
        b = build(work, name=name, cc=cc, opt=opt)
        for p in ((165,) if tier == "quick" else (165, 0)):
            t2 = text.replace("env\nlayout\n", "env\nlayout\nset paint=%d\n" % p, 1)
            axis_compare(work, "C11", seed, out, ref, "%s paint %d" % (name, p), b, t2, "-%s-%d" % (name, p))
    # results can only be a function of the API inputs if the library keeps no state of its own:
    # the guard-off library must have no writable static storage (same fact as in C18)
    b0 = build(work, name="nohook", hooks=False, drv=False)
    nbytes, detail = static_data_bytes(b0)
    fact = [json.dumps({"e": "static_data", "bytes": nbytes, "detail": detail[:5]})]
    rr = validate_trace(work, fact)
    out.traces_tlc += 1
    if not rr.accepted:
        p = save_replay("C11", seed, 699, fact, "library has writable static storage")
        out.violations.append(("static_data", p, "library objects contain %d bytes of .data/.bss (hidden state "
                               "that outlives a call): %s" % (nbytes, detail[:3])))
    note_distinct(out, ref, ("o", "len", "n"))
    out.samples = sample_events(ref, maxlen=200)
    return out, dict(
        level="exploration",
        rule="The scenario sets of C01-C07, C10 (every in-between key length), C14 are executed in separate "
             "processes with the stack below every call painted 0x00/0xFF/0xA5/ramp, caller handles pre-filled, heap "
             "blocks fresh from mmap or poisoned quarantine, under gcc -O3/-O0 and clang -O2 (thorough: gcc -O0..-O3, "
             "clang -O0/-O2/-O3). Every trace (return values, outputs, schedule images byte by byte) must be "
             "identical to the reference trace, a sample (quick: every 3rd execution; thorough: all) of which is "
             "validated by TLC against the deterministic contract; differing executions are validated by TLC to "
             "locate the fault. MC_Det checks that the contract has at most one successor per call (determinism). "
             "distinct = distinct (event,kind,rr,len,key,input) tuples of the reference.",
        assumptions=["memory perturbation is by painting, poisoning and process separation; it cannot prove absence "
                     "of an uninitialised read whose value never reaches an observable"])


CHECKS.update({"C11": check_C11})


# ------------------------------------------------------------------ C12 build matrix

def matrix(tier):
    simd = [(1, 1, 1), (1, 1, 0), (1, 0, 0), (0, 0, 0)]       # (LE, V128, V256); V256 without V128 is not a shipped combination
    full = []
    for w64 in (1, 0):
        for ua in (1, 0):
            for (le, v128, v256) in simd:
                for cc in ("gcc", "clang"):
                    for opt in ("-O0", "-O1", "-O2", "-O3"):
                        full.append(dict(w64=w64, ua=ua, le=le, v128=v128, v256=v256, cc=cc, opt=opt))
    if tier == "thorough":
        return full
    # quick: a pairwise-covering subset (every pair of values of two switches occurs together)
    pick = [
        dict(w64=1, ua=1, le=1, v128=1, v256=1, cc="clang", opt="-O2"),
        dict(w64=0, ua=1, le=1, v128=1, v256=1, cc="gcc", opt="-O0"),
        dict(w64=1, ua=0, le=1, v128=1, v256=0, cc="gcc", opt="-O1"),
        dict(w64=0, ua=0, le=1, v128=1, v256=0, cc="clang", opt="-O3"),
        dict(w64=1, ua=1, le=1, v128=0, v256=0, cc="gcc", opt="-O2"),
        dict(w64=0, ua=0, le=1, v128=0, v256=0, cc="clang", opt="-O0"),
        dict(w64=1, ua=0, le=0, v128=0, v256=0, cc="clang", opt="-O1"),
        dict(w64=0, ua=1, le=0, v128=0, v256=0, cc="gcc", opt="-O3"),
        dict(w64=0, ua=0, le=0, v128=0, v256=0, cc="gcc", opt="-O2"),
        dict(w64=1, ua=1, le=0, v128=0, v256=0, cc="gcc", opt="-O0"),
        dict(w64=0, ua=1, le=1, v128=1, v256=0, cc="clang", opt="-O1"),
        dict(w64=1, ua=0, le=1, v128=1, v256=1, cc="gcc", opt="-O3"),
    ]
    return pick


def cfg_name(c):
    return "w%d-u%d-le%d-v%d%d-%s%s" % (c["w64"], c["ua"], c["le"], c["v128"], c["v256"], c["cc"], c["opt"])


def build_cfg(work, c):
    defs = ["SKINNY_VERIF_64BIT=%d" % c["w64"], "SKINNY_VERIF_UNALIGNED=%d" % c["ua"],
            "SKINNY_VERIF_LITTLE_ENDIAN=%d" % c["le"], "SKINNY_VERIF_VEC128_MATH=%d" % c["v128"],
            "SKINNY_VERIF_VEC256_MATH=%d" % c["v256"]]
    return build(work, name=cfg_name(c), cc=c["cc"], opt=c["opt"], defs=defs,
                 built128=c["v128"], built256=c["v256"])


def check_C12(work, tier, seed):
    out = Outcome()
    b_ref = build(work, name="shipped")
    text = gen_composite(seed, "quick")
    vt = text if tier == "thorough" else thin(text, 3, seed + 1)
    conform(work, b_ref, "C12", seed, vt, out, tag="-ref")
    ref = run_drv(b_ref, text)
    out.events += len(ref)
    cfgs = matrix(tier)
    from concurrent.futures import ThreadPoolExecutor
    def one(c):
        try:
            return c, build_cfg(work, c), None
        except Broken as e:
            return c, None, e
    with ThreadPoolExecutor(max_workers=4) as tp:
        built = list(tp.map(one, cfgs))
    nb = 0
    for c, b, err in built:
        if err is not None:
            raise Broken("configuration %s does not build: %s" % (cfg_name(c), str(err)[-800:]))
        nb += 1
        axis_compare(work, "C12", seed, out, ref, cfg_name(c), b, text, "-" + cfg_name(c))
        out.distinct.add(cfg_name(c))
        shutil.rmtree(b.root, ignore_errors=True)
    out.samples = [cfg_name(c) for c in cfgs[:8]] + sample_events(ref, n=2, maxlen=160)
    return out, dict(
        level="exploration",
        exhaustive=(tier == "thorough"),
        rule="Build matrix through hook H1: {64/32-bit words} x {unaligned fast paths on/off} x {(LE,V128,V256) in "
             "(1,1,1),(1,1,0),(1,0,0),(0,0,0)} x {gcc, clang} x {-O0..-O3} = 128 builds (thorough: all; quick: a "
             "12-build pairwise-covering subset). Each build runs the full scenario sets of C01-C07, C10, C14 "
             "(incl. reduced-round S-box sweeps and every in-between key length); every execution must be identical "
             "to the shipped build's reference trace up to the back-end name (a sample of which - quick: every 3rd "
             "execution, thorough: all - is validated by TLC); differing executions are validated by TLC with the "
             "build's own env (built128/built256). distinct = number of configurations run.",
        extra=dict(configurations=nb),
        assumptions=["big-endian hosts and NEON cannot be run; the byte-order-neutral scalar path is exercised on "
                     "this little-endian host through SKINNY_LITTLE_ENDIAN=0 as the property scopes it"])


CHECKS.update({"C12": check_C12})


# ------------------------------------------------------------------ C09 buffer contract

def gen_c09(seed, tier, cap_for=lambda k: 2):
    sc = Sc(seed, placements=False)
    thorough = tier == "thorough"
    aligns = list(range(32)) if thorough else [0, 1, 2, 3, 4, 7, 8, 15, 16, 17, 24, 31]
    pls = ["e", "s"] + ["m%d" % a for a in aligns]
    for kind in ("s128", "s64"):
        bs = BS[kind]
        # single-block functions: every overlap offset, both directions, plain and tweaked
        sc.reset("c09-ov-%s" % kind)
        sc.ks_set_key(kind, 0, sc.rb(2 * bs))
        sc.ks_set_tweaked_key(kind, 0, sc.rb(bs))
        sc.ks_set_tweak(kind, 0, sc.rb(bs))
        for off in range(-(bs - 1), bs):
            blk = sc.rb(bs)
            sc.ks_crypt(True, kind, 0, blk, ov=off)
            sc.ks_crypt(False, kind, 0, blk, ov=off)
            if thorough or off % 3 == 0:
                sc.ks_crypt(True, kind, 0, blk, t=1, ov=off)
        # every pointer argument at every placement
        sc.reset("c09-pl-%s" % kind)
        for pl in pls:
            key = sc.rb(sc.rng.choice((bs, bs + 1, bs + 2, bs + 3, 2 * bs - 1, 2 * bs + 1, 2 * bs + 2, 3 * bs - 2, 3 * bs)))
            sc.op("ks_set_key", k=kind, o=0, t=0, key=hx(key), len=len(key), pk=pl)
            blk = sc.rb(bs)
            kw = {"in": hx(blk)}
            sc.op("ks_enc", k=kind, o=0, t=0, pi=pl, po=sc.rng.choice(pls), **kw)
            sc.op("ks_dec", k=kind, o=0, t=0, pi=sc.rng.choice(pls), po=pl, **kw)
            tkey = sc.rb(sc.rng.choice((bs, bs + 1, bs + 2, bs + 3, 2 * bs - 2, 2 * bs)))
            sc.op("ks_set_tweaked_key", k=kind, o=1, key=hx(tkey), len=len(tkey), pk=pl)
            tl = sc.rng.choice((1, 2, bs - 1, bs))
            sc.op("ks_set_tweak", k=kind, o=1, tweak=hx(sc.rb(tl)), len=tl, pt=pl)
            sc.op("ks_enc", k=kind, o=1, t=1, pi=pl, po=pl, **kw)
    # every accepted key / tweak / counter length with the buffer flush against the end guard
    # (an over-read of even one byte traps) and, separately, followed by non-zero bytes
    for kind in ("s128", "s64"):
        bs = BS[kind]
        sc.reset("c09-keyend-%s" % kind)
        sc.ctr_init(kind, 0, cap=cap_for(kind))
        for ln in range(bs, 3 * bs + 1):
            for pl in ("e", "m3"):
                sc.op("ks_set_key", k=kind, o=0, t=0, key=hx(sc.rb_nz(ln)), len=ln, pk=pl)
                if ln <= 2 * bs:
                    sc.op("ks_set_tweaked_key", k=kind, o=1, key=hx(sc.rb_nz(ln)), len=ln, pk=pl)
            if ln % 3 == 0:
                sc.op("ctr_set_key", k=kind, o=0, key=hx(sc.rb_nz(ln)), len=ln, pk="e")
        for ln in range(1, bs + 1):
            sc.op("ks_set_tweak", k=kind, o=1, tweak=hx(sc.rb_nz(ln)), len=ln, pt="e")
            sc.op("ctr_set_counter", k=kind, o=0, ctr=hx(sc.rb_nz(ln)), len=ln, pt="e")
        sc.ctr_cleanup(kind, 0)
    sc.reset("c09-mantis")
    sc.mk_set_key(0, sc.rb(16), 6, 1)
    for off in range(-7, 8):
        blk = sc.rb(8)
        sc.mk_crypt(0, blk, ov=off)
        sc.mk_crypt(0, blk, tweak=sc.rb(8), ov=off)
    for pl in pls:
        sc.op("mk_set_key", o=1, key=hx(sc.rb(16)), len=16, rounds=7, mode=1, pk=pl)
        sc.op("mk_set_tweak", o=1, tweak=hx(sc.rb(8)), len=8, pt=pl)
        kw = {"in": hx(sc.rb(8))}
        sc.op("mk_crypt", o=1, pi=pl, po=sc.rng.choice(pls), **kw)
        sc.op("mk_crypt_tw", o=1, pi=sc.rng.choice(pls), po=pl, tweak=hx(sc.rb(8)), pt=pl, **kw)
    # bulk calls: lengths 0..17 blocks and ragged, exact aliasing and disjoint, every placement
    for kind in ("s128", "s64", "mantis"):
        bs = BS[kind]
        sc.reset("c09-ctr-%s" % kind)
        sc.ctr_init(kind, 0, cap=cap_for(kind))
        sc.op("ctr_set_key", k=kind, o=0, key=hx(valid_key(sc, kind)), rounds=6, pk="e")
        lens = list(range(0, 18))
        for i, nbk in enumerate(lens):
            if nbk in (7, 11, 14, 16):
                sc.ctr_cleanup(kind, 0)
                sc.reset("c09-ctr-%s-%d" % (kind, nbk))
                sc.ctr_init(kind, 0, cap=cap_for(kind))
                sc.op("ctr_set_key", k=kind, o=0, key=hx(valid_key(sc, kind)), rounds=6, pk="s")
            for extra in ((0, 1, bs - 1) if (thorough or nbk % 4 == 1) else (0, 5)):
                n = nbk * bs + extra
                pl = pls[(i * 3 + extra) % len(pls)]
                cl = sc.rng.randrange(0, bs + 1)
                sc.op("ctr_set_counter", k=kind, o=0, ctr=hx(sc.rb(cl)), len=cl, pt=pl)
                kw = {"in": hx(sc.rb(n))}
                sc.op("ctr_encrypt", k=kind, o=0, pi=pl, po=pls[(i * 5 + 1) % len(pls)], **kw)
                sc.op("ctr_encrypt", k=kind, o=0, pi=pl, ip=1, **kw)
        sc.ctr_cleanup(kind, 0)
        # the stream standing at every kind of position inside a batch (block-aligned but inside the
        # batch, unaligned, batch boundary), THEN a short or ragged request whose buffers end flush
        # against the guard page, disjoint and in place
        sc.reset("c09-ctr-pos-%s" % kind)
        sc.ctr_init(kind, 0, cap=cap_for(kind))
        sc.op("ctr_set_key", k=kind, o=0, key=hx(valid_key(sc, kind)), rounds=6, pk="e")
        for pre in (bs, 2 * bs, 3 * bs, 5 * bs, 7 * bs, 8 * bs, bs + 3, 6 * bs):
            for n in ((1, 5, bs - 1, bs + 1, 2 * bs + 7) if (thorough or pre in (bs, 5 * bs, bs + 3)) else (5, bs + 1)):
                for ip in (None, 1):
                    sc.op("ctr_set_counter", k=kind, o=0, ctr=hx(sc.rb(bs)), len=bs, pt="e")
                    sc.op("ctr_encrypt", k=kind, o=0, pi="e", po="e", **{"in": hx(sc.rb(pre))})
                    sc.op("ctr_encrypt", k=kind, o=0, pi="e", po="e", ip=ip, **{"in": hx(sc.rb(n))})
                    # what follows in the stream is still right (nothing was consumed or clobbered)
                    sc.op("ctr_encrypt", k=kind, o=0, pi="s", po="s", **{"in": hx(sc.rb(bs + 2))})
        sc.ctr_cleanup(kind, 0)
        sc.reset("c09-par-%s" % kind)
        sc.par_init(kind, 0, cap=cap_for(kind))
        k = valid_key(sc, kind)
        sc.op("par_set_key", k=kind, o=0, key=hx(k), len=len(k), rounds=6, mode=1, pk="e")
        for i, nbk in enumerate(range(0, 18)):
            if nbk in (8, 12, 15):
                sc.par_cleanup(kind, 0)
                sc.reset("c09-par-%s-%d" % (kind, nbk))
                sc.par_init(kind, 0, cap=cap_for(kind))
                k = valid_key(sc, kind)
                sc.op("par_set_key", k=kind, o=0, key=hx(k), len=len(k), rounds=6, mode=1, pk="s")
            pl = pls[(i * 7) % len(pls)]
            kw = {"in": hx(sc.rb(nbk * bs))}
            if kind == "mantis":
                kw["tweak"] = hx(sc.rb(nbk * 8))
                sc.op("par_crypt", k=kind, o=0, pi=pl, po=pls[(i * 5 + 2) % len(pls)], pt=pls[(i * 11 + 1) % len(pls)], **kw)
                sc.op("par_crypt", k=kind, o=0, pi=pl, ip=1, pt="e", **kw)
            else:
                sc.op("par_encrypt", k=kind, o=0, pi=pl, po=pls[(i * 5 + 2) % len(pls)], **kw)
                sc.op("par_decrypt", k=kind, o=0, pi=pl, ip=1, **kw)
        sc.par_cleanup(kind, 0)
    return sc


def check_C09(work, tier, seed):
    out = Outcome()
    r, ok = run_mc(work, out, "MC_Mem", "MC_Mem", must_cover=("Single", "Bulk"))
    if not ok:
        mc_violation("C09", out, "MC_Mem", r)
    run_mc(work, out, "MC_Mem", "MCneg_Mem_stream", expect_fail=True)
    b = build(work)
    lines = backend_sweep(work, b, "C09", seed, lambda cf: gen_c09(seed, tier, cf), out)
    # the byte-wise (no unaligned fast path) build must obey the same contract
    b2 = build(work, name="noua", defs=["SKINNY_VERIF_UNALIGNED=0"])
    for cap in (2, 1, 0):
        axis_compare(work, "C09", seed, out, lines, "SKINNY_UNALIGNED=0 cap %d" % cap, b2,
                     gen_c09(seed, tier, lambda k, cap=cap: cap).text(), "-noua%d" % cap)
    note_distinct(out, lines, ("o", "ov", "n", "len"))
    out.samples = sample_events([x for x in lines if '"ov"' in x or '"ip":1' in x], maxlen=220)
    return out, dict(
        level="model_checking",
        rule="Design: MC_Mem (TLC exhaustive): every placement of input and output windows in a 12-byte arena "
             "(all overlaps) for single-block calls and exact aliasing / disjoint placement for bulk calls of 0..3 "
             "blocks: result = F(pre-state input), frame condition; a store-as-you-go variant must fail. Code: every "
             "overlap offset -(bs-1)..bs-1 for every single-block function of the three ciphers; every pointer "
             "argument (key, tweak, counter, input, output, tweak array) flush against a PROT_NONE page at its end, "
             "flush against one at its start, and at alignments 0..31 (quick: 12 of them) inside a canary-filled "
             "arena whose every byte outside the output extent is compared after the call; bulk calls of 0..17 "
             "blocks and ragged byte counts in place and out of place; every back end and the byte-wise "
             "(SKINNY_UNALIGNED=0) build; all results validated by TLC against the specification (which has no "
             "notion of alignment). An out-of-extent access is a crash event (no spec action); a stray write is a "
             "rejected event.",
        assumptions=["reads that stay inside mapped, unguarded memory between the guarded ends are invisible to this "
                     "check (C08's address traces see them)"])


CHECKS.update({"C09": check_C09})


# ------------------------------------------------------------------ C19 Arduino port

def build_arduino(work):
    root = work.sub("ard")
    copy_tree(root)
    src = os.path.join(root, "arduino", "libraries", "Skinny")
    exe = os.path.join(root, "drv_ard")
    cpps = [os.path.join(src, f) for f in sorted(os.listdir(src)) if f.endswith(".cpp")]
    sh(["g++", "-O2", "-g", "-I" + src, os.path.join(HARNESS, "drv_ard.cpp")] + cpps + ["-o", exe])
    b = Build(root, "arduino", {})
    b.drv = exe
    return b


def gen_c19(seed, tier):
    """scenarios restricted to what the Arduino API can express: exact primary key
    lengths, full-length (or NULL) tweaks, 16-byte IVs, Mantis with 8 rounds"""
    sc = Sc(seed, placements=False)
    thorough = tier == "thorough"
    for kind in ("s128", "s64"):
        bs = BS[kind]
        for z in (1, 2, 3):
            key, pt, ct = [bytes.fromhex(x) for x in SKINNY_VECTORS[(kind, z)]]
            sc.reset("c19-vec-%s-%d" % (kind, z))
            sc.ks_set_key(kind, 0, key)
            sc.ks_crypt(True, kind, 0, pt)
            sc.ks_crypt(False, kind, 0, ct)
            sc.reset("c19-rand-%s-%d" % (kind, z))
            for i in range(40 if thorough else 8):
                o = sc.rng.randrange(8)
                sc.ks_set_key(kind, o, sc.rb(z * bs) if i % 5 else walking(z * bs, sc.rng.randrange(z * bs), 1 << sc.rng.randrange(8)))
                for j in range(2):
                    blk = sc.rb(bs)
                    sc.ks_crypt(True, kind, o, blk)
                    sc.ks_crypt(False, kind, o, blk)
            # universally invalid lengths are rejected and change nothing
            sc.ks_set_key(kind, 0, sc.rb(z * bs))
            for bad in (0, bs - 1, 3 * bs + 1, 4 * bs):
                sc.ks_set_key(kind, 0, sc.rb(bad) if bad else b"", bad)
            sc.ks_crypt(True, kind, 0, sc.rb(bs))
            sc.op("ard_clear", k=kind, o=0, fam="ks")
        for z in (1, 2):
            sc.reset("c19-tweak-%s-%d" % (kind, z))
            sc.ks_set_tweaked_key(kind, 0, sc.rb(z * bs))
            blk = sc.rb(bs)
            sc.ks_crypt(True, kind, 0, blk, t=1)          # fresh: zero tweak
            lastt = bytes(bs)
            for i in range(40 if thorough else 16):
                r = sc.rng.random()
                if r < 0.15:
                    sc.ks_set_tweak(kind, 0, None, bs)      # NULL = all-zero
                elif r < 0.25:
                    sc.ks_set_tweaked_key(kind, 0, sc.rb(z * bs))
                elif r < 0.32:
                    sc.ks_set_tweak(kind, 0, sc.rb(bs + 1), bs + 1)    # invalid
                    sc.ks_set_tweak(kind, 0, sc.rb(bs), 0)
                elif r < 0.65:
                    lastt = related_tweak(sc, lastt)
                    lastt = lastt + bytes(bs - len(lastt)) if len(lastt) < bs else lastt    # Arduino: full length only
                    sc.ks_set_tweak(kind, 0, lastt)
                else:
                    lastt = sc.rb(bs)
                    sc.ks_set_tweak(kind, 0, lastt)
                if sc.rng.random() < 0.6:
                    sc.ks_crypt(sc.rng.random() < 0.5, kind, 0, sc.rb(bs), t=1)
            for bad in (0, bs - 1, 2 * bs + 1):
                sc.ks_set_tweaked_key(kind, 0, sc.rb(bad) if bad else b"", bad)
            sc.ks_crypt(True, kind, 0, blk, t=1)
            sc.op("ard_clear", k=kind, o=0, fam="tks")
    # Mantis8
    pt, ct = [bytes.fromhex(x) for x in MANTIS_VECTORS[8]]
    sc.reset("c19-mantis-vec")
    sc.mk_set_key(0, MANTIS_KEY, 8, 1)
    sc.mk_crypt(0, pt)
    sc.mk_set_tweak(0, MANTIS_TWEAK)
    sc.mk_crypt(0, pt)
    sc.mk_swap(0)
    sc.mk_crypt(0, ct)
    for i in range(8 if thorough else 3):
        sc.reset("c19-mantis-%d" % i)
        sc.mk_set_key(0, sc.rb(16), 8, sc.rng.randrange(2))
        for j in range(12):
            r = sc.rng.random()
            if r < 0.3:
                sc.mk_swap(0)
            elif r < 0.55:
                sc.mk_set_tweak(0, sc.rb(8) if sc.rng.random() < 0.8 else None)
            elif r < 0.65:
                sc.mk_set_key(0, sc.rb(16), 8, sc.rng.randrange(2))
            elif r < 0.72:
                sc.mk_set_key(0, sc.rb(15), 8, 1)
                sc.mk_set_tweak(0, sc.rb(7), 7)
            sc.mk_crypt(0, sc.rb(8))
            sc.lines[-1] += " viadec=%d" % sc.rng.randrange(2)
        sc.op("ard_clear", o=0, fam="mk")
    # CTR<T>: set key, IV, arbitrary splits; rekey + new IV; tweak change + new IV
    for z, tw in ((1, 0), (2, 0), (3, 0), (1, 1), (2, 1)):
        sc.reset("c19-ctr-%d-%d" % (z, tw))
        sc.ctr_init("s128", 0)
        for rep in range(3 if thorough else 2):
            key = sc.rb(z * 16)
            if tw:
                sc.ctr_set_tweaked_key("s128", 0, key)
                if rep:
                    sc.ctr_set_tweak("s128", 0, sc.rb(16) if rep == 1 else None, 16)
            else:
                sc.ctr_set_key("s128", 0, key)
            for c in (sc.rb(16), b"\xff" * 16, sc.rb(9) + b"\xff" * 7):
                sc.ctr_set_counter("s128", 0, c)
                for n in cuts(sc.rng, 5 * 16 + 3, 16):
                    sc.ctr_encrypt("s128", 0, sc.rb(n), ip=1 if (n and sc.rng.random() < 0.3) else None)
                    sc.lines[-1] += " viadec=%d" % sc.rng.randrange(2)
            sc.ctr_set_counter("s128", 0, sc.rb(17), 17)      # invalid IV length for both APIs: rejected, stream continues
            sc.ctr_encrypt("s128", 0, sc.rb(7))
        sc.ctr_cleanup("s128", 0)
    # Arduino-only: setCounterSize(n) confines the increment to the low n bytes
    for z, tw in ((1, 0), (3, 0), (2, 1)):
        sc.reset("c19-ctrsize-%d-%d" % (z, tw))
        sc.ctr_init("s128", 0)
        (sc.ctr_set_tweaked_key if tw else sc.ctr_set_key)("s128", 0, sc.rb(z * 16))
        for size in (16, 1, 2, 4, 8, 15, 0, 17, 3):
            iv = sc.rb(16 - max(1, min(size, 16))) + b"\xff" * (max(1, min(size, 16)) - 1) + bytes([0xFE])
            sc.ctr_set_counter("s128", 0, iv)
            sc.op("ard_set_counter_size", k="s128", o=0, size=size)
            sc.ctr_encrypt("s128", 0, sc.rb(5 * 16 + 3))      # the low part wraps, the prefix must not move
            sc.ctr_encrypt("s128", 0, sc.rb(13))
        sc.ctr_cleanup("s128", 0)
    # Arduino-only: CTR<T>::clear() in the middle of a block, then a new key and data WITHOUT a new IV:
    # the stream restarts at byte 0 of E(0) (what init + set_key + encrypt gives in the C library)
    for z, tw in ((1, 0), (2, 0), (3, 0), (1, 1), (2, 1)):
        sc.reset("c19-ctrclear-%d-%d" % (z, tw))
        sc.ctr_init("s128", 0)
        setk = sc.ctr_set_tweaked_key if tw else sc.ctr_set_key
        for first in (21, 1, 32, 47, 0, 16 * 3 + 15):
            setk("s128", 0, sc.rb(z * 16))
            sc.ctr_set_counter("s128", 0, sc.rb(16))
            sc.ctr_encrypt("s128", 0, sc.rb(first))
            sc.op("ard_clear", k="s128", o=0, fam="ctr")
            setk("s128", 0, sc.rb(z * 16))
            sc.ctr_encrypt("s128", 0, sc.rb(16 + 5))
            sc.ctr_encrypt("s128", 0, sc.rb(30))
        sc.ctr_cleanup("s128", 0)
    return sc


def check_C19(work, tier, seed):
    out = Outcome()
    # the design models the Arduino classes share with the C code: incremental tweak
    # update, Mantis mode switch, and the CTR position machine with batch size 1
    for mod, cfg, cover in (("MC_Tweak", "MC_Tweak", ("SetTweak",)), ("MC_Mode", "MC_Mode", ("Swap",)),
                            ("MC_Ctr", "MC_Ctr1", ("DoEncrypt",))):
        r, ok = run_mc(work, out, mod, cfg, must_cover=cover)
        if not ok:
            mc_violation("C19", out, cfg, r)
    ba = build_arduino(work)
    sc = gen_c19(seed, tier)
    lines = conform(work, ba, "C19", seed, sc.text(), out, module="ArduinoTrace")
    # cross-check: the C library on the very same scenario (minus Arduino-only calls)
    bc = build(work)
    # (executions that use an Arduino-only feature have no C counterpart and are left out)
    chead, cex = sc_executions(sc)
    cex = [e for e in cex if not any(l.startswith("ard_set_counter_size") or (l.startswith("ard_clear") and "fam=ctr" in l)
                                     for l in e)]
    ctext = "\n".join(ln.replace(" viadec=0", "").replace(" viadec=1", "")
                      for ln in chead + [l for e in cex for l in e] if not ln.startswith("ard_clear")) + "\n"
    clines = run_drv(bc, ctext)
    out.events += len(clines)
    ah, aex = split_executions(lines)
    alines = ah + [ln for ex in aex if not any('"e":"ard_set_counter_size"' in x or ('"e":"ard_clear"' in x and '"fam":"ctr"' in x)
                                               for x in ex)
                   for ln in ex if '"e":"ard_clear"' not in ln]
    ign = ("be", "psize", "cap", "na", "nf", "nz", "nzo", "badfree", "lv", "stray", "ctxnull", "vtnull", "fail")
    h, diff = compare_axis(work, clines, alines, "arduino-vs-c", "C19", seed, out, ignore_keys=ign)
    if diff:
        p = save_replay("C19", seed, 800, h + diff[0], "Arduino trace differs from the C library's on the same scenario")
        out.violations.append(("differs:arduino-vs-c", p, "execution %s: Arduino and C traces differ" % diff[0][0][:80]))
    note_distinct(out, lines, ("o", "tweak", "ctr", "n", "fam"))
    out.samples = sample_events(lines, n=5, maxlen=220)
    return out, dict(
        level="model_checking",
        rule="The Arduino classes (all 11 block ciphers, CTR<T> over the five Skinny-128 classes) are compiled "
             "unmodified for the host (portable C++ path) and driven by the same scenario language as the C library: "
             "published vectors, random and walking keys, enc/dec of arbitrary blocks, tweak-change histories with "
             "NULL tweaks and invalid lengths, Mantis8 mode/tweak walks (encryptBlock and decryptBlock entry points), "
             "CTR with wrap-around/carry IVs in arbitrary splits via encrypt and decrypt, clear(). Their traces use "
             "the C driver's event vocabulary and are validated by TLC against the SAME contract (SkinnyTrace + the "
             "Arduino-only clear action): schedule images, remembered tweaks, outputs. Additionally each execution "
             "is compared with the C library's trace of the same scenario. Design models shared with the C code "
             "(MC_Tweak, MC_Mode, MC_Ctr with batch size 1 = CTRCommon) are re-run.",
        assumptions=["AVR inline-assembly path cannot be run on the host",
                     "the Arduino API is used as its Cipher interface prescribes: setKey then setIV before data "
                     "(CTRCommon has no documented default counter); key sizes are the class's exact size"])


CHECKS.update({"C19": check_C19})


# ------------------------------------------------------------------ C20 example tools

def hex_text(rng, data, fancy):
    """an option text that denotes <data> in the tools' hex syntax; fancy: mixed case, separators
    (blank, colon, dot; also doubled, leading and trailing) and single-digit bytes before a separator"""
    if not fancy:
        return data.hex()
    t = rng.choice(["", ":", " "])
    for i, b in enumerate(data):
        sep = rng.choice(["", "", ":", " ", ".", "::", ". "])
        if i == len(data) - 1 and rng.random() < 0.5:
            sep = rng.choice([":", " ", "."])
        h = "%02x" % b
        if b < 16 and sep and rng.random() < 0.7:
            h = "%x" % b                       # a lone digit is a whole byte when a separator follows
        h = "".join(ch.upper() if rng.random() < 0.5 else ch for ch in h)
        t += h + sep
    return t


def run_tool(root, tooldir, tool, args, infile_bytes, rng, idx, preexist=None):
    """Run one example binary; returns (rc, outexists, outbytes)."""
    d = os.path.join(tooldir, "case%d" % idx)
    os.makedirs(d)
    inp = os.path.join(d, "in.bin")
    outp = os.path.join(d, "out.bin")
    if preexist is not None:
        with open(outp, "wb") as f:
            f.write(preexist)
    if infile_bytes is not None:
        with open(inp, "wb") as f:
            f.write(infile_bytes)
    exe = os.path.join(root, "examples", "skinny-" + tool)
    argv = [exe] + [a.replace("@IN", inp).replace("@OUT", outp) for a in args]
    p = subprocess.run(argv, stdout=subprocess.PIPE, stderr=subprocess.PIPE, timeout=60)
    ex = os.path.exists(outp)
    data = open(outp, "rb").read() if ex else b""
    shutil.rmtree(d, ignore_errors=True)
    return p.returncode, 1 if ex else 0, data


def gen_tool_cases(seed, tier):
    rng = random.Random(seed)
    rb = lambda n: bytes(rng.randrange(256) for _ in range(n))
    thorough = tier == "thorough"
    good, bad = [], []
    for tool in ("ctr", "tweak", "ecb"):
        for bs in (16, 8):
            maxk = 2 * bs if tool == "tweak" else 3 * bs
            klens = list(range(bs, maxk + 1))                 # EVERY legal key length
            flens = [0, 1, bs - 1, bs, bs + 1, 3 * bs + 5, 1023, 1024, 1025]
            if thorough:
                flens += [2047, 2048, 2049, 3 * 1024 + 17]
            for i, kl in enumerate(klens):
                fl = flens[i % len(flens)] if not (tool == "tweak" and bs == 16 and flens[i % len(flens)] > 600 and not thorough) \
                    else 5 * bs + 3
                twl = rng.choice([None, 1, 2, bs - 1, bs]) if tool != "ecb" else None
                tw = None
                if twl is not None:
                    tw = rb(twl)
                    if rng.random() < 0.3:
                        tw = rb(twl - 1) + b"\xff" if twl > 1 else b"\xff"   # carries in the tweak/counter
                dec = 1 if (tool != "ctr" and rng.random() < 0.4) else 0
                good.append(dict(tool=tool, bs=bs, key=rb(kl), tw=tw, dec=dec, data=rb(fl)))
            # tweak / counter values whose increment carries across byte 8 from the right (and all-FF)
            if tool != "ecb" and bs == 16:
                for twv in (rb(4) + b"\xff" * 11 + b"\xfe", b"\xff" * 16, rb(1) + b"\xff" * 8, b"\x00" * 7 + b"\xff" * 9):
                    good.append(dict(tool=tool, bs=bs, key=rb(bs), tw=twv, dec=0, data=rb(5 * bs + 3)))
            if tool != "ecb" and bs == 8:
                for twv in (b"\xff" * 8, rb(3) + b"\xff" * 4 + b"\xfe", b"\xff" * 3):
                    good.append(dict(tool=tool, bs=bs, key=rb(bs), tw=twv, dec=0, data=rb(5 * bs + 3)))
            # large files at both ends of the key range
            for fl in ([1024 + bs + 3] if not thorough else [2048 + 1, 3 * 1024 + 17]):
                if tool == "tweak" and bs == 16 and not thorough:
                    continue
                good.append(dict(tool=tool, bs=bs, key=rb(bs), tw=None, dec=0, data=rb(fl)))
            # invalid options
            k = rb(bs).hex()
            B = ["-b", str(bs * 8)]
            bad += [
                dict(tool=tool, why="bad block size", args=["-b", "96", "-k", k, "@IN", "@OUT"]),
                dict(tool=tool, why="non-hex key", args=B + ["-k", "zz" + k[2:], "@IN", "@OUT"]),
                dict(tool=tool, why="key too short", args=B + ["-k", rb(bs - 1).hex(), "@IN", "@OUT"]),
                dict(tool=tool, why="key too long", args=B + ["-k", rb(maxk + 1).hex(), "@IN", "@OUT"]),
                dict(tool=tool, why="missing key", args=B + ["@IN", "@OUT"]),
                dict(tool=tool, why="missing output file name", args=B + ["-k", k, "@IN"]),
                dict(tool=tool, why="missing file names", args=B + ["-k", k]),
                dict(tool=tool, why="unknown option", args=B + ["-k", k, "-x", "@IN", "@OUT"]),
                dict(tool=tool, why="empty key", args=B + ["-k", "", "@IN", "@OUT"]),
                dict(tool=tool, why="input file does not exist", args=B + ["-k", k, "@IN", "@OUT"], noinput=True),
                dict(tool=tool, why="output file cannot be created", args=B + ["-k", k, "@IN", "@OUT.d/x/out.bin"]),
            ]
            if tool != "ecb":
                opt = "-c" if tool == "ctr" else "-t"
                bad += [dict(tool=tool, why="counter/tweak too long", args=B + ["-k", k, opt, rb(bs + 1).hex(), "@IN", "@OUT"]),
                        dict(tool=tool, why="non-hex counter/tweak", args=B + ["-k", k, opt, "0g", "@IN", "@OUT"])]
                # the same invalid options in every other order (the verdict must not depend on it)
                for ol in ((9, 12, 16) if bs == 8 else (17,)):
                    big = rb(ol).hex()
                    bad += [dict(tool=tool, why="counter/tweak too long, given before -b", args=[opt, big, "-k", k] + B + ["@IN", "@OUT"]),
                            dict(tool=tool, why="counter/tweak too long, given before -b and -k", args=[opt, big] + B + ["-k", k, "@IN", "@OUT"]),
                            dict(tool=tool, why="counter/tweak too long, -b given twice", args=["-b", "128", opt, big, "-k", k] + B + ["@IN", "@OUT"])]
            # key length judged against the block size in force after ALL options
            bad += [dict(tool=tool, why="key too long, given before -b", args=["-k", rb(maxk + 1).hex()] + B + ["@IN", "@OUT"]),
                    dict(tool=tool, why="key too short for the final block size", args=["-b", "64", "-k", rb(8).hex(), "-b", "128", "@IN", "@OUT"])]
    return good, bad


def check_C20(work, tier, seed):
    out = Outcome()
    r, ok = run_mc(work, out, "MC_Tools", "MC_Tools", must_cover=("Classify", "Process"))
    if not ok:
        mc_violation("C20", out, "MC_Tools", r)
    run_mc(work, out, "MC_Tools", "MCneg_Tools_chunk", expect_fail=True)
    run_mc(work, out, "MC_Tools", "MCneg_Tools_inloop", expect_fail=True)
    b = build(work, tools=True, drv=False)
    tooldir = work.sub("tools")
    good, bad = gen_tool_cases(seed, tier)
    rng = random.Random(seed + 5)
    events = []
    idx = 0
    for c in good:
        idx += 1
        fancy = idx % 3 == 0
        ktext = hex_text(rng, c["key"], fancy)
        twtext = hex_text(rng, c["tw"], fancy) if c["tw"] is not None else ""
        groups = [["-b", str(c["bs"] * 8)], ["-k", ktext]]
        if c["tw"] is not None:
            groups.append(["-c" if c["tool"] == "ctr" else "-t", twtext])
        if c["dec"]:
            groups.append(["-d"])
        rng.shuffle(groups)                      # options in any order
        if c["bs"] == 8 and rng.random() < 0.3:
            groups.insert(0, ["-b", "128"])       # an earlier -b is overridden by the later one
        args = [a for g in groups for a in g] + ["@IN", "@OUT"]
        # a file of the output's name may exist already: longer, shorter, of equal length, empty
        whole_ = len(c["data"]) - (0 if c["tool"] == "ctr" else len(c["data"]) % c["bs"])
        pre = [None, bytes(rng.randrange(256) for _ in range(whole_ + rng.choice((1, 7, 1500)))),
               bytes(max(whole_ - 1, 0)), b"\x5a" * whole_, b""][idx % 5]
        rc, ex, data = run_tool(b.root, tooldir, c["tool"], args, c["data"], rng, idx, preexist=pre)
        events.append(json.dumps({"e": "tool", "tool": c["tool"], "bs": c["bs"], "key": list(c["key"]),
                                  "tw": list(c["tw"] or b""), "twgiven": 1 if c["tw"] is not None else 0,
                                  "ktext": [ord(ch) for ch in ktext], "twtext": [ord(ch) for ch in twtext],
                                  "pre": -1 if pre is None else len(pre),
                                  "dec": c["dec"], "in": list(c["data"]), "rc": rc, "outexists": ex,
                                  "out": list(data)}))
        out.distinct.add((c["tool"], c["bs"], len(c["key"]), len(c["tw"] or b""), c["dec"], len(c["data"])))
        # running the tool again on its output restores the input (ctr) / the whole blocks (-d)
        if rc == 0 and ex and (idx % 3 == 0):
            idx += 1
            args2 = list(args)
            if c["tool"] != "ctr":
                if "-d" in args2:
                    args2.remove("-d")
                    d2 = 0
                else:
                    args2.insert(-2, "-d")
                    d2 = 1
            else:
                d2 = 0
            rc2, ex2, data2 = run_tool(b.root, tooldir, c["tool"], args2, data, rng, idx)
            events.append(json.dumps({"e": "tool", "tool": c["tool"], "bs": c["bs"], "key": list(c["key"]),
                                      "tw": list(c["tw"] or b""), "twgiven": 1 if c["tw"] is not None else 0,
                                      "ktext": [ord(ch) for ch in ktext], "twtext": [ord(ch) for ch in twtext], "pre": -1,
                                      "dec": d2, "in": list(data), "rc": rc2, "outexists": ex2, "out": list(data2)}))
            whole = len(c["data"]) - (0 if c["tool"] == "ctr" else len(c["data"]) % c["bs"])
            if data2 != c["data"][:whole]:
                p = save_replay("C20", seed, 700 + idx, events[-2:], "round trip does not restore the input")
                out.violations.append(("roundtrip", p, "skinny-%s round trip differs (bs=%d key %d bytes)" % (c["tool"], c["bs"], len(c["key"]))))
    for c in bad:
        idx += 1
        rc, ex, data = run_tool(b.root, tooldir, c["tool"], c["args"], None if c.get("noinput") else b"0123456789abcdef" * 3, rng, idx)
        events.append(json.dumps({"e": "tool_bad", "tool": c["tool"], "why": c["why"], "rc": rc, "outexists": ex,
                                  "args": " ".join(c["args"])[:200]}))
        out.distinct.add(("bad", c["tool"], c["why"]))
    out.events += len(events)
    # validate in parallel chunks (every event is independent)
    njobs = min(NCPU, max(1, len(events) // 4))
    costs = [len(e) for e in events]
    bins = [[] for _ in range(njobs)]
    loads = [0] * njobs
    for e in sorted(events, key=lambda x: -len(x)):
        i = loads.index(min(loads))
        bins[i].append(e)
        loads[i] += len(e)
    from concurrent.futures import ThreadPoolExecutor
    with ThreadPoolExecutor(max_workers=njobs) as tp:
        res = list(tp.map(lambda ch: validate_trace(work, ch, module="ToolsTrace"), bins))
    for ch, rr in zip(bins, res):
        out.traces_tlc += len(ch)
        if not rr.accepted:
            bad_line = ch[rr.consumed] if rr.consumed < len(ch) else "{}"
            r2 = validate_trace(work, [bad_line], module="ToolsTrace")
            if r2.accepted:
                raise Broken("tool rejection did not repeat")
            ev = json.loads(bad_line)
            sig = "tool:%s:%s" % (ev.get("tool"), r2.messages[0][:80] if r2.messages else "")
            p = save_replay("C20", seed, len(out.violations), [bad_line], sig)
            out.violations.append((sig, p, "%s | %s" % (" ".join(r2.messages)[:500], bad_line[:300])))
    out.samples = [e[:260] for e in events[:2]] + [e[:260] for e in events[-2:]]
    return out, dict(
        level="exploration",
        rule="Design: MC_Tools (TLC exhaustive): option classifier as a left-to-right pass over EVERY order of the options "
             "= documented conditions (a length check made inside the pass must fail); chunked "
             "loops = whole-file processing for lengths 0..27 (chunk 8, block 4), a chunk size that is not a multiple "
             "of the block must fail. Code: the three binaries built from the tree, both block sizes, EVERY legal key "
             "length, counters/tweaks of lengths 1..bs incl. carries and absent, -d, file lengths 0,1,bs-1,bs,bs+1,"
             "1023,1024,1025(,2047..3089); exit status, output existence, output bytes validated by TLC against "
             "SkinnySpec (CTR stream law, ECB map, per-block tweak increment); every third case is run again on its "
             "output (round trip); options are given in shuffled order (and -b twice); 14+ classes of invalid options "
             "per tool, the order-sensitive ones in several orders, must exit non-zero without creating the output "
             "file. Every third case writes its key/counter/tweak in the tools' full hex syntax (mixed case, blank/colon/"
             "dot separators, single-digit bytes), whose meaning ToolsTrace defines (ParseHex) and checks; four of "
             "five cases find a file of the output's name already there (longer, shorter, same length, empty). "
             "distinct = distinct (tool,bs,key length,counter length,dec,file length) and invalid classes.",
        assumptions=["short reads from fread() are not provoked"])


CHECKS.update({"C20": check_C20})


# ------------------------------------------------------------------ C18 thread safety

def split_threads(lines):
    """driver output in thread mode: prologue lines, then per thread a marker + its lines"""
    pro, threads, cur = [], [], None
    for ln in lines:
        if ln.startswith('{"e":"thread"'):
            cur = []
            threads.append(cur)
        elif cur is None:
            pro.append(ln)
        else:
            cur.append(ln)
    return pro, threads


def strip_caps(text):
    import re
    return re.sub(r" cap=\d", "", text)


def gen_shared(seed, tier):
    sc = Sc(seed)
    sc.reset("c18-shared")
    keys = {"s128": sc.rb(32), "s64": sc.rb(24)}
    for kind in ("s128", "s64"):
        sc.ks_set_key(kind, 7, keys[kind])
        sc.par_init(kind, 7)
        sc.par_set_key(kind, 7, keys[kind])
    sc.mk_set_key(7, sc.rb(16), 7, 1)
    sc.mk_set_tweak(7, sc.rb(8))
    sc.par_init("mantis", 7)
    sc.par_set_key("mantis", 7, sc.rb(16), rounds=6, mode=0)
    sc.raw("share")
    sc.raw("threads n=%d" % (16 if tier == "thorough" else 12))
    n = 60 if tier == "thorough" else 24
    for i in range(n):
        for kind in ("s128", "s64"):
            bs = BS[kind]
            blk = sc.rb(bs)
            sc.ks_crypt(True, kind, 7, blk)
            sc.lines[-1] += " sh=1"
            sc.ks_crypt(False, kind, 7, blk)
            sc.lines[-1] += " sh=1"
            sc.par_crypt(kind, 7, sc.rb(sc.rng.choice((1, 8, 9, 17)) * bs), enc=bool(i % 2))
            sc.lines[-1] += " sh=1"
        sc.mk_crypt(7, sc.rb(8))
        sc.lines[-1] += " sh=1"
        sc.mk_crypt(7, sc.rb(8), tweak=sc.rb(8))
        sc.lines[-1] += " sh=1"
        nb = sc.rng.choice((3, 8, 11))
        sc.par_crypt("mantis", 7, sc.rb(nb * 8), tweak=sc.rb(nb * 8))
        sc.lines[-1] += " sh=1"
        if i % 6 == 0:
            # own objects used next to the shared ones
            sc.ctr_init("s128", 0)
            sc.ctr_set_key("s128", 0, sc.rb(16))
            sc.ctr_encrypt("s128", 0, sc.rb(70))
            sc.ctr_cleanup("s128", 0)
    return sc


def static_data_bytes(b):
    """.data + .bss over all objects of the (guard-off) library"""
    rc, outp = sh(["size", "-A", b.lib], check=True)
    total = 0
    detail = []
    for ln in outp.split("\n"):
        parts = ln.split()
        if len(parts) >= 2 and parts[0] in (".data", ".bss") and parts[1].isdigit():
            total += int(parts[1])
            if int(parts[1]):
                detail.append(ln.strip())
    return total, detail


def check_C18(work, tier, seed):
    out = Outcome()
    r, ok = run_mc(work, out, "MC_Threads", "MC_Threads", must_cover=("DoStep",))
    if not ok:
        mc_violation("C18", out, "MC_Threads", r)
    run_mc(work, out, "MC_Threads", "MCneg_Threads_scratch", expect_fail=True)
    run_mc(work, out, "MC_Threads", "MCneg_Threads_cache", expect_fail=True)
    b = build(work)
    nthreads = 16 if tier == "thorough" else 8
    # (i) distinct objects in concurrent threads: each thread's trace = the sequential trace
    text = strip_caps(gen_composite(seed, tier))
    text = thin(text, 2 if tier == "thorough" else 4, seed)
    ref = conform(work, b, "C18", seed, text, out, tag="-seq")
    for rep in range(3 if tier == "thorough" else 2):
        mt_text = text.replace("env\nlayout\n", "env\nlayout\nthreads n=%d\n" % nthreads, 1)
        lines = run_drv(b, mt_text, timeout=600)
        out.events += len(lines)
        pro, threads = split_threads(lines)
        if len(threads) != nthreads:
            raise Broken("thread mode produced %d thread traces" % len(threads))
        for ti, tl in enumerate(threads):
            h, diff = compare_axis(work, ref, pro + tl, "thread %d" % ti, "C18", seed, out)
            if diff:
                sub = Outcome()
                conform_lines(work, "C18", seed, pro + [ln for ex in diff for ln in ex], text, sub, tag="-t%d" % ti)
                if not sub.violations:
                    p = save_replay("C18", seed, 600 + ti, pro + diff[0], "thread trace differs from sequential trace")
                    sub.violations.append(("differs:thread", p, "thread %d: execution %s differs from the sequential run" % (ti, diff[0][0][:80])))
                out.merge(sub)
    # (ii) one read-only key schedule / parallel object shared by many threads
    ssc = gen_shared(seed, tier)
    lines = run_drv(b, ssc.text(), timeout=600)
    out.events += len(lines)
    pro, threads = split_threads(lines)
    first = None
    for ti, tl in enumerate(threads):
        full = pro + tl
        if first is None:
            first = full
            sub = Outcome()
            conform_lines(work, "C18", seed, full, ssc.text(), sub, tag="-shared")
            out.merge(sub)
        elif full == first:
            out.traces_identity += 1
        else:
            sub = Outcome()
            conform_lines(work, "C18", seed, full, ssc.text(), sub, tag="-shared%d" % ti)
            if not sub.violations:
                p = save_replay("C18", seed, 650 + ti, full, "shared-object thread trace differs")
                sub.violations.append(("differs:shared", p, "thread %d using the shared read-only objects saw different results" % ti))
            out.merge(sub)
    # (iii) structural fact from the guard-off build: no writable static storage
    b0 = build(work, name="nohook", hooks=False, drv=False)
    nbytes, detail = static_data_bytes(b0)
    fact = [json.dumps({"e": "static_data", "bytes": nbytes, "detail": detail[:5]})]
    rr = validate_trace(work, fact)
    out.traces_tlc += 1
    if not rr.accepted:
        p = save_replay("C18", seed, 699, fact, "library has writable static storage")
        out.violations.append(("static_data", p, "library objects contain %d bytes of .data/.bss: %s" % (nbytes, detail[:3])))
    note_distinct(out, ref, ("o", "n"))
    out.samples = sample_events([x for x in lines if '"sh":1' in x], n=3, maxlen=200) + fact
    return out, dict(
        level="model_checking",
        rule="Design: MC_Threads (TLC exhaustive): 3 threads x 2 calls, every interleaving at footprint-step "
             "granularity: no write outside the caller's own objects, results = sequential results; a static scratch "
             "buffer and an unsynchronised cached probe must fail. Code: (i) %d threads run the scenario sets of "
             "C01-C07/C10/C14 concurrently on distinct objects (concurrent inits included): every per-thread trace "
             "must equal the TLC-validated sequential trace; (ii) one key schedule of each cipher and one parallel "
             "object of each kind, placed in PROT_READ memory (heap context included), used by 12-16 threads at once "
             "next to their own objects: traces validated by TLC, any write is a crash event; (iii) the guard-off "
             "library has 0 bytes of .data/.bss (event validated by the trace spec). No cross-thread ordering is "
             "recorded or needed: each thread has its own trace." % nthreads,
        assumptions=["interleavings on the real machine are sampled by repetition, not enumerated",
                     "race detection proper (happens-before) is not attempted; absence of shared writable state is "
                     "shown structurally (no static storage, read-only shared objects)"])


CHECKS.update({"C18": check_C18})


# ------------------------------------------------------------------ C08 constant time (footprints)

import threading
_LACKEY_LOCK = threading.Lock()


class SecretSc(Sc):
    """Scenario whose structure (ops, lengths, placements) comes from the public
    seed and whose byte strings come from a separate secret source."""
    def __init__(self, seed, secret_mode):
        Sc.__init__(self, seed, placements=False)
        self.srng = random.Random("%s/%s" % (seed, secret_mode))
        self.mode = secret_mode

    def rb(self, n):
        if self.mode == "zeros":
            return bytes(n)
        if self.mode == "ones":
            return b"\xff" * n
        return bytes(self.srng.randrange(256) for _ in range(n))

    def rb_nz(self, n):
        return self.rb(n)

    def rctr(self, n):
        """a (secret) counter value; the edge modes make the lane counters pass through zero
        right after the first batch, so that carry AND borrow chains differ between runs"""
        if n == 0:
            return b""
        if self.mode == "edge8":
            return b"\xff" * (n - 1) + b"\xf8"
        if self.mode == "edge4":
            return b"\xff" * (n - 1) + b"\xfc"
        if self.mode == "edge1":
            return b"\x00" * (n - 1) + b"\xfe" if n > 1 else b"\xfe"
        return self.rb(n)


def gen_c08(seed, tier, secret_mode, scalar_only=False):
    sc = SecretSc(seed, secret_mode)
    sc.lines = ["env", "set fast=1"]
    thorough = tier == "thorough"
    R = sc.rng          # public choices only
    for kind in ("s128", "s64"):
        bs = BS[kind]
        sc.reset("c08-ks-%s" % kind)
        for ln in (bs, bs + 1, 2 * bs - 1, 2 * bs, 2 * bs + 5, 3 * bs):
            sc.ks_set_key(kind, 0, sc.rb(ln))
            sc.ks_crypt(True, kind, 0, sc.rb(bs))
            sc.ks_crypt(False, kind, 0, sc.rb(bs))
        for ln in (bs, bs + 3, 2 * bs):
            sc.ks_set_tweaked_key(kind, 0, sc.rb(ln))
            for tl in (1, bs // 2, bs):
                sc.ks_set_tweak(kind, 0, sc.rb(tl))
                sc.ks_crypt(True, kind, 0, sc.rb(bs), t=1)
            sc.ks_set_tweak(kind, 0, None, bs)
            sc.ks_crypt(False, kind, 0, sc.rb(bs), t=1)
    sc.reset("c08-mantis")
    for rounds in (5, 8):
        for mode in (1, 0):
            sc.mk_set_key(0, sc.rb(16), rounds, mode)
            sc.mk_set_tweak(0, sc.rb(8))
            sc.mk_crypt(0, sc.rb(8))
            sc.mk_crypt(0, sc.rb(8), tweak=sc.rb(8))
            sc.mk_swap(0)
            sc.mk_crypt(0, sc.rb(8))
    for kind in ("s128", "s64", "mantis"):
        bs = BS[kind]
        for cap in ((0,) if scalar_only else CAPS[kind]):
            sc.reset("c08-ctr-%s-cap%d" % (kind, cap))
            sc.ctr_init(kind, 0, cap=cap)
            if kind == "mantis":
                sc.ctr_set_key(kind, 0, sc.rb(16), rounds=7)
                sc.ctr_set_tweak(kind, 0, sc.rb(8))
            else:
                sc.ctr_set_tweaked_key(kind, 0, sc.rb(2 * bs))
                sc.ctr_set_tweak(kind, 0, sc.rb(bs - 3))
            # counter values are secret: all-FF (longest carry chain) in one run, zeros / random in others
            sc.ctr_set_counter(kind, 0, sc.rctr(bs))
            for n in (1, bs - 1, bs + 1, 4 * bs, 8 * bs + 3, 2, 9 * bs):
                sc.ctr_encrypt(kind, 0, sc.rb(n))
            # every counter LENGTH 0..bs (short counters take their own paths) with secret values
            for ln in range(0, bs + 1):
                sc.ctr_set_counter(kind, 0, sc.rctr(ln))
                if ln % 4 == 0:
                    sc.ctr_encrypt(kind, 0, sc.rb(3))
            sc.ctr_set_key(kind, 0, sc.rb(16 if kind == "mantis" else 3 * bs), rounds=6)     # rekey mid-stream
            sc.ctr_set_counter(kind, 0, sc.rctr(bs // 2))
            sc.ctr_encrypt(kind, 0, sc.rb(3 * bs + 1), ip=1)
            # key and tweak changes with 1..B-1 pre-computed blocks still unused (the SIMD back ends
            # step their lane counters back): after 1 block + 3 bytes, after 2 blocks, after 5 blocks + 1
            for used in (bs + 3, 2 * bs, 5 * bs + 1):
                sc.ctr_set_counter(kind, 0, sc.rctr(bs))
                sc.ctr_encrypt(kind, 0, sc.rb(used))
                sc.ctr_set_key(kind, 0, sc.rb(16 if kind == "mantis" else 2 * bs), rounds=8)
                sc.ctr_encrypt(kind, 0, sc.rb(3))
                if kind != "mantis":
                    sc.ctr_set_tweaked_key(kind, 0, sc.rb(bs))
                    sc.ctr_encrypt(kind, 0, sc.rb(bs + 1))
                sc.ctr_set_tweak(kind, 0, sc.rb(8 if kind == "mantis" else bs))
                sc.ctr_encrypt(kind, 0, sc.rb(2))
            sc.ctr_cleanup(kind, 0)
            sc.reset("c08-par-%s-cap%d" % (kind, cap))
            sc.par_init(kind, 0, cap=cap)
            sc.par_set_key(kind, 0, sc.rb(16 if kind == "mantis" else 2 * bs), rounds=6, mode=0)
            for nb in (1, 4, 8, 9, 17):
                tw = sc.rb(nb * 8) if kind == "mantis" else None
                sc.par_crypt(kind, 0, sc.rb(nb * bs), enc=True, tweak=tw)
                if kind != "mantis":
                    sc.par_crypt(kind, 0, sc.rb(nb * bs), enc=False)
            if kind == "mantis":
                sc.par_swap(0)
                sc.par_crypt(kind, 0, sc.rb(9 * 8), tweak=sc.rb(9 * 8))
            sc.par_cleanup(kind, 0)
    return sc


def public_view(line):
    """the scenario line with every byte string replaced by its length"""
    import re
    def rep(m):
        v = m.group(2)
        if v in ("null", "-"):
            return "%s=%s" % (m.group(1), v)
        return "%s=<%d>" % (m.group(1), len(v) // 2)
    return re.sub(r"\b(key|tweak|ctr|in)=([0-9a-f]+|null|-)", rep, line)


_lackey_seq = [0]


def lackey_run(work, b, text, tag):
    """run the driver under valgrind/lackey, cutting the log on the fly; returns windows.
    Every run uses the same working directory and path names of the same length:
    the client's initial stack layout must not differ between secret variants."""
    import threading
    with _LACKEY_LOCK:
        _lackey_seq[0] += 1
        k = _lackey_seq[0] % 1000
    fifo = os.path.join(b.root, "fifo%03d" % k)
    win = os.path.join(b.root, "wins%03d" % k)
    os.mkfifo(fifo)
    rc, nm = sh("nm %s | grep drv_mark" % b.drv)
    beg = [l.split()[0] for l in nm.split("\n") if "drv_mark_begin" in l][0]
    end = [l.split()[0] for l in nm.split("\n") if "drv_mark_end" in l][0]
    fw = subprocess.Popen("%s %s %s < %s > %s" % (os.path.join(b.root, "footwin"), beg, end, fifo, win), shell=True)
    env = {"PATH": "/usr/local/bin:/usr/bin:/bin", "HOME": "/root", "LANG": "C"}
    p = subprocess.run(["valgrind", "--tool=lackey", "--trace-mem=yes", "--log-file=" + fifo, b.drv],
                       input=text.encode(), stdout=subprocess.PIPE, stderr=subprocess.PIPE, env=env, cwd=b.root, timeout=1500)
    fw.wait(timeout=120)
    wins = [l.split() for l in open(win).read().split("\n") if l]
    out_lines = [x for x in p.stdout.decode().split("\n") if x]
    os.unlink(fifo)
    os.unlink(win)
    return wins, out_lines, p.returncode


def check_C08(work, tier, seed):
    out = Outcome()
    modes = ["ones", "zeros", "edge8", "edge4", "rand1"] if tier == "quick" else \
        ["ones", "zeros", "edge8", "edge4", "edge1", "rand1", "rand2", "rand3", "rand4"]
    builds = [("shipped", dict()),
              # the 32-bit-word scalar code paths (S-boxes, LFSRs, Mantis rows): a reduced scenario in the
              # quick tier (key schedules, single blocks, generic CTR/parallel), the full one in thorough
              ("w32-scalar", dict(defs=["SKINNY_VERIF_64BIT=0", "SKINNY_VERIF_VEC128_MATH=0", "SKINNY_VERIF_VEC256_MATH=0"],
                                  built128=0, built256=0))]
    if tier == "thorough":
        builds += [("gcc-O0", dict(opt="-O0")),
                   ("neutral", dict(defs=["SKINNY_VERIF_64BIT=0", "SKINNY_VERIF_LITTLE_ENDIAN=0", "SKINNY_VERIF_VEC128_MATH=0",
                                          "SKINNY_VERIF_VEC256_MATH=0"], built128=0, built256=0))]
    nwin = 0
    from concurrent.futures import ThreadPoolExecutor
    plan = []
    for bname, kw in builds:
        b = build(work, name="foot-" + bname, extra_drv=["-no-pie"], **kw)
        sh(["gcc", "-O2", "-o", os.path.join(b.root, "footwin"), os.path.join(HARNESS, "footwin.c")])
        reduced = (tier == "quick" and bname != "shipped")
        bmodes = ["ones", "zeros", "rand1"] if reduced else modes
        texts = {m: gen_c08(seed, tier, m, scalar_only=reduced).text() for m in bmodes}
        pubs = None
        for m in bmodes:
            pv = [public_view(l) for l in texts[m].split("\n") if l.split(" ")[0].startswith(("ks_", "mk_", "ctr_", "par_"))]
            if pubs is None:
                pubs = pv
            elif pubs != pv:
                raise Broken("secret variants differ in their public structure")
        plan.append((bname, b, bmodes, texts, pubs))
    jobs = [(bname, b, m, texts[m]) for bname, b, bmodes, texts, pubs in plan for m in bmodes]
    with ThreadPoolExecutor(max_workers=min(NCPU, len(jobs))) as tp:
        allres = list(tp.map(lambda j: lackey_run(work, j[1], j[3], j[0] + "-" + j[2]), jobs))
    resmap = {(j[0], j[2]): r for j, r in zip(jobs, allres)}
    for bname, b, bmodes, texts, pubs in plan:
        events = []
        for m in bmodes:
            wins, olines, rc = resmap[(bname, m)]
            if rc != 0 or any('"e":"crash"' in x for x in olines):
                raise Broken("driver failed under valgrind (%s %s, rc=%s)" % (bname, m, rc))
            if len(wins) != len(pubs):
                raise Broken("expected %d call windows, lackey log has %d (%s %s)" % (len(pubs), len(wins), bname, m))
            for (idx, n, nst, dg), pub in zip(wins, pubs):
                events.append(json.dumps({"e": "foot", "run": m, "build": bname, "idx": int(idx), "pub": pub,
                                          "n": int(n), "stores": int(nst), "digest": dg}))
            nwin += len(wins)
        out.events += len(events)
        r = validate_trace(work, events, module="FootTrace")
        out.traces_tlc += len(bmodes)
        if not r.accepted:
            bad = events[r.consumed] if r.consumed < len(events) else "{}"
            ev = json.loads(bad)
            p = save_replay("C08", seed, len(out.violations), events[:r.consumed + 1], "footprint differs")
            with open(p + ".scn", "w") as f:
                f.write("# secret variant %s of build %s\n" % (ev.get("run"), bname) + texts.get(ev.get("run"), ""))
            out.violations.append(("foot:%s" % ev.get("pub", "")[:60], p,
                                   "footprint of call #%s (%s) in build %s depends on secret values: run '%s' differs from run '%s' | %s"
                                   % (ev.get("idx"), ev.get("pub"), bname, ev.get("run"), bmodes[0], " ".join(r.messages)[:300])))
        for e in events[:len(pubs)]:
            out.distinct.add(json.loads(e)["pub"] + bname)
        if not out.samples:
            out.samples = [events[3][:300], events[len(pubs) + 3][:300]]
    return out, dict(
        level="exploration",
        rule="Each public call of a scenario covering key and tweak set-up (every length class), tweak change, "
             "single-block enc/dec, CTR (request sizes around block and batch edges, rekey mid-stream, short counter), "
             "parallel with and without remainder, Mantis both modes, on every back end (cap 0/1/2), is executed on "
             "the shipped binary (gcc -O3, SIMD on) and on the 32-bit-word scalar build (quick: reduced scenario; "
             "thorough: full scenario, plus -O0 and the byte-order-neutral build) under "
             "valgrind/lackey once per secret assignment: all-0xFF secrets (longest counter carry chains), all-zero "
             "secrets, counters chosen so that the lane counters pass through zero after the first batch (carry and "
             "borrow chains of maximal and minimal length), seeded random secrets (quick 5, thorough 9 assignments). The complete sequence of instruction "
             "addresses and load/store addresses between marker functions is digested per call; FootTrace.tla "
             "(TLC) accepts iff the digest is a function of the call's public view (secret byte strings replaced by "
             "their lengths). distinct = distinct (public call, build) pairs; evaluations = call windows compared.",
        extra=dict(windows=nwin),
        assumptions=["secret sampling: a dependence that none of the assignments triggers is not seen",
                     "micro-architectural effects below the instruction/address level are out of scope",
                     "valgrind presents the same CPUID as the host (AVX2 code paths are exercised)"])


CHECKS.update({"C08": check_C08})


# ------------------------------------------------------------------ spec -> impl: scenarios from TLC state graphs

import re as _re


def _label(l):
    m = _re.match(r"(\w+)(?:\((.*)\))?$", l)
    name, args = m.group(1), (m.group(2) or "")
    return name, [a.strip().strip('"') for a in _re.findall(r'<<[^>]*>>|"[^"]*"|[^,]+', args)] if args else []


def graph_ctr_scenarios(work, seed, cap_for, out, kinds=("s128", "s64", "mantis"), cfg="Gen_Ctr", probe=True):
    """every edge of Gen_Ctr's state graph, concretised for each kind.  probe=True: valid calls after the
    last transition show its effect (error contract); probe=False: cleanup follows IMMEDIATELY, whatever
    state the last transition left the context in (wipe contract)."""
    init, edges, nn = dump_graph(work, "Gen_Ctr", cfg)
    seqs = edge_cover(init, edges)
    out.notes.append("%s graph: %d states, %d edges, %d edge-covering call sequences per kind" % (cfg, nn, len(edges), len(seqs)))
    if not kinds:
        out.mc.append({"model": "%s (state graph dumped for scenario generation)" % cfg, "states": nn,
                       "transitions": len(edges), "ok": True, "violated": None, "expected_to_fail": False, "actions": {}})
    sc = Sc(seed + 77)
    for kind in kinds:
        bs = BS[kind]
        tl = 8 if kind == "mantis" else bs
        for si, seq in enumerate(seqs):
            sc.reset("g-ctr-%s-%d" % (kind, si))
            live, j, since = False, 0, 0
            curkey, curtw = None, bytes(tl)
            famkey = {}
            for lab in seq:
                name, a = _label(lab)
                if name == "DoInit":
                    fail = a[0] == "TRUE"
                    sc.ctr_init(kind, 0, cap=cap_for(kind), fail=1 if fail else None,
                                prefill=sc.rng.choice([None, 0, 0xA5]) if not live else None)
                    live, j, since = (not fail), 0, 0
                    curkey, curtw = None, bytes(tl)
                    famkey = {}
                elif name == "DoCleanup":
                    sc.ctr_cleanup(kind, 0)
                    live = False
                elif name in ("DoSetKey", "DoSetTweakedKey"):
                    cls, z = a[0], int(a[1])
                    tweaked = name == "DoSetTweakedKey"
                    setk = sc.ctr_set_tweaked_key if (tweaked and kind != "mantis") else sc.ctr_set_key
                    kw = {"rounds": 5 + (z % 4)} if (kind == "mantis" or not tweaked) else {}
                    if cls == "valid":
                        kb_ = sc.rb_nz(16 if kind == "mantis" else z * bs)
                        setk(kind, 0, kb_, **kw)
                        if live:
                            j, since = 0, (since + bs - 1) // bs * bs
                            curkey = (kb_, kw.get("rounds"))
                            famkey[tweaked] = curkey
                            if tweaked or kind == "mantis":
                                curtw = bytes(tl)      # keying (tweakable / Mantis) resets the tweak to zero
                    elif cls == "previous":
                        # the very key this object held in this family before a key of the other family
                        # replaced it
                        kk, rr_ = famkey[tweaked]
                        if kind == "mantis" or not tweaked:
                            setk(kind, 0, kk, rounds=rr_)
                        else:
                            setk(kind, 0, kk)
                        curkey = (kk, rr_)
                        j, since = 0, (since + bs - 1) // bs * bs
                        if tweaked or kind == "mantis":
                            curtw = bytes(tl)
                    elif cls == "same":
                        # the very key that is already in force, again (mid-stream)
                        kk, rr_ = curkey if curkey else (sc.rb_nz(16 if kind == "mantis" else bs), 6)
                        if kind == "mantis" or not tweaked:
                            setk(kind, 0, kk, rounds=rr_)
                        else:
                            setk(kind, 0, kk)
                        j, since = 0, (since + bs - 1) // bs * bs
                        if tweaked or kind == "mantis":
                            curtw = bytes(tl)
                    elif cls == "null":
                        setk(kind, 0, None, bs, **kw)
                    elif cls == "short":
                        setk(kind, 0, sc.rb(bs - 1 if kind != "mantis" else 15), **kw)
                    elif cls == "long":
                        setk(kind, 0, sc.rb((2 if tweaked else 3) * bs + 1 if kind != "mantis" else 17), **kw)
                    else:   # badrounds
                        if kind == "mantis":
                            sc.ctr_set_key(kind, 0, sc.rb(16), rounds=sc.rng.choice((0, 4, 9, 100)))
                        else:
                            setk(kind, 0, b"", 0)
                elif name == "DoSetTweak":
                    cls = a[0]
                    if cls in ("full", "short", "null") and live:
                        j, since = 0, (since + bs - 1) // bs * bs
                    if cls == "same":
                        if live:
                            j, since = 0, (since + bs - 1) // bs * bs
                        sc.ctr_set_tweak(kind, 0, curtw)       # the tweak that is already in force, full length
                    elif cls == "full" or (cls == "short" and kind == "mantis"):
                        curtw = sc.rb_nz(tl) if live else curtw
                        sc.ctr_set_tweak(kind, 0, curtw if live else sc.rb_nz(tl))
                    elif cls == "short":
                        t_ = sc.rb_nz(sc.rng.randrange(1, bs))
                        sc.ctr_set_tweak(kind, 0, t_)
                        if live:
                            curtw = t_ + bytes(tl - len(t_))
                    elif cls == "null":
                        sc.ctr_set_tweak(kind, 0, None, tl)
                        if live:
                            curtw = bytes(tl)
                    elif cls == "zero_len":
                        sc.ctr_set_tweak(kind, 0, sc.rb(tl), 0)
                    else:
                        sc.ctr_set_tweak(kind, 0, sc.rb(tl + 1), tl + 1)
                elif name == "DoSetCounter":
                    cls = a[0]
                    if cls != "too_long":
                        j, since = 0, 0
                    if cls == "full":
                        sc.ctr_set_counter(kind, 0, sc.rb_nz(bs))
                    elif cls == "short":
                        sc.ctr_set_counter(kind, 0, sc.rb_nz(sc.rng.randrange(1, bs)))
                    elif cls == "empty":
                        sc.ctr_set_counter(kind, 0, b"", 0)
                    elif cls == "null":
                        sc.ctr_set_counter(kind, 0, None, sc.rng.randrange(0, bs + 1))
                    else:
                        sc.ctr_set_counter(kind, 0, sc.rb(bs + 1), bs + 1)
                elif name == "DoEncrypt":
                    cls = a[0]
                    n = None
                    if cls == "zero":
                        sc.ctr_encrypt(kind, 0, b"")
                    elif cls in ("part", "long_part"):
                        base = 0 if cls == "part" else 17 * bs
                        n = base + sc.rng.choice([x for x in range(1, bs) if (j + x) % bs != 0])
                    elif cls in ("align", "long_align"):
                        base = 0 if cls == "align" else 16 * bs
                        n = base + ((bs - j) % bs or bs)
                    elif cls == "batch":
                        n = (8 * bs - since % (8 * bs)) % (8 * bs) or 8 * bs
                    elif cls == "null_in":
                        sc.ctr_encrypt(kind, 0, None, n=5)
                        sc.ctr_encrypt(kind, 0, None, n=0)
                    else:
                        sc.ctr_encrypt(kind, 0, sc.rb(5), outnull=1)
                        sc.ctr_encrypt(kind, 0, b"", outnull=1)
                    if n is not None:
                        sc.ctr_encrypt(kind, 0, sc.rb(n))
                        if live:
                            j, since = (j + n) % bs, since + n
            if probe:
                # what the object does next shows the effect of the last transition
                sc.ctr_encrypt(kind, 0, sc.rb(bs + 2))
            sc.ctr_cleanup(kind, 0)
            sc.quiesce()
    return sc


def graph_mode_scenarios(work, seed, cap_for, out):
    init, edges, nn = dump_graph(work, "MC_Mode", "Gen_Mode")
    seqs = edge_cover(init, edges)
    out.notes.append("MC_Mode graph: %d states, %d edges, %d edge-covering call sequences" % (nn, len(edges), len(seqs)))
    sc = Sc(seed + 78)
    for si, seq in enumerate(seqs):
        if si % 10 == 0:
            sc.reset("g-mode-%d" % si)
            sc.par_init("mantis", 0, cap=cap_for("mantis"))
        keys = {"ka": sc.rb(16), "kb": sc.rb(16)}
        tws = {"zero": None, "t1": sc.rb(8), "t2": sc.rb(8)}
        rounds = 5 + si % 4
        for lab in seq:
            name, a = _label(lab)
            if name == "SetKey":
                sc.mk_set_key(0, keys[a[0]], rounds, 1 if a[1] == "enc" else 0)
                sc.par_set_key("mantis", 0, keys[a[0]], rounds=rounds, mode=1 if a[1] == "enc" else 0)
            elif name == "SetTweak":
                sc.mk_set_tweak(0, tws[a[0]])
            else:
                sc.mk_swap(0)
                sc.par_swap(0)
        blk = sc.rb(8)
        sc.mk_crypt(0, blk)
        sc.mk_crypt(0, blk, tweak=sc.rb(8))
        sc.par_crypt("mantis", 0, sc.rb(24), tweak=sc.rb(24))
    return sc


def graph_tweak_scenarios(work, seed, out):
    init, edges, nn = dump_graph(work, "MC_Tweak", "Gen_Tweak")
    seqs = edge_cover(init, edges)
    out.notes.append("MC_Tweak graph: %d states, %d edges, %d edge-covering call sequences per kind" % (nn, len(edges), len(seqs)))
    sc = Sc(seed + 79)
    for kind in ("s128", "s64"):
        bs = BS[kind]
        h = bs // 2
        for si, seq in enumerate(seqs):
            if si % 8 == 0:
                sc.reset("g-tweak-%s-%d" % (kind, si))
            half = {0: bytes(h), 1: sc.rb_nz(h)}
            for lab in seq:
                name, a = _label(lab)
                if name == "SetTweakedKey":
                    sc.ks_set_tweaked_key(kind, 0, sc.rb(bs * (1 + si % 2)))
                elif name == "SetTweak":
                    vec = [int(x) for x in _re.findall(r"\d+", a[0])]
                    ln = int(a[1])
                    tw = b"".join(half[v] for v in vec)[:ln * h]
                    sc.ks_set_tweak(kind, 0, tw)
                elif name == "SetTweakNull":
                    sc.ks_set_tweak(kind, 0, None, int(a[0]) * h)
                elif name == "SetTweakedKeyBad":
                    why = int(a[0])
                    if why == 2:
                        sc.ks_set_tweaked_key(kind, 0, None, bs)
                    else:
                        n = sc.rng.randrange(0, bs) if why == 0 else sc.rng.randrange(2 * bs + 1, 3 * bs + 2)
                        sc.ks_set_tweaked_key(kind, 0, sc.rb(max(n, 1)), n)
                else:
                    ln = int(a[0])
                    sc.ks_set_tweak(kind, 0, sc.rb(bs + 1), 0 if ln == 0 else bs + 1)
            sc.ks_crypt(True, kind, 0, sc.rb(bs), t=1)
    return sc


def graph_par_scenarios(work, seed, cap_for, out, kinds=("s128", "s64", "mantis"), cfg="Gen_Par", probe=True):
    """every edge of Gen_Par's state graph, concretised for each kind"""
    init, edges, nn = dump_graph(work, "Gen_Par", cfg)
    seqs = edge_cover(init, edges)
    out.notes.append("%s graph: %d states, %d edges, %d edge-covering call sequences per kind" % (cfg, nn, len(edges), len(seqs)))
    if not kinds:
        out.mc.append({"model": "%s (state graph dumped for scenario generation)" % cfg, "states": nn,
                       "transitions": len(edges), "ok": True, "violated": None, "expected_to_fail": False, "actions": {}})
    sc = Sc(seed + 81)
    nblk = {"zero": 0, "one": 1, "below": 7, "batch": 8, "above": 19}
    for kind in kinds:
        bs = BS[kind]
        for si, seq in enumerate(seqs):
            sc.reset("g-par-%s-%d" % (kind, si))
            for lab in seq:
                name, a = _label(lab)
                if name == "DoInit":
                    fail = a[0] == "TRUE"
                    sc.par_init(kind, 0, cap=cap_for(kind), fail=1 if fail else None,
                                prefill=sc.rng.choice([None, 0, 0x5A]))
                elif name == "DoCleanup":
                    sc.par_cleanup(kind, 0)
                elif name == "DoSetKey":
                    cls, z = a[0], int(a[1])
                    kw = dict(rounds=5 + (z % 4), mode=sc.rng.randrange(2))
                    if cls == "valid":
                        sc.par_set_key(kind, 0, sc.rb_nz(16 if kind == "mantis" else z * bs), **kw)
                    elif cls == "null":
                        sc.par_set_key(kind, 0, None, bs, **kw)
                    elif cls == "short":
                        sc.par_set_key(kind, 0, sc.rb(bs - 1 if kind != "mantis" else 15), **kw)
                    elif cls == "long":
                        sc.par_set_key(kind, 0, sc.rb(3 * bs + 1 if kind != "mantis" else 17), **kw)
                    elif kind == "mantis":
                        sc.par_set_key(kind, 0, sc.rb(16), rounds=sc.rng.choice((0, 4, 9, 77)), mode=1)
                    else:
                        sc.par_set_key(kind, 0, b"", 0)
                elif name == "DoSwap":
                    if kind == "mantis":
                        sc.par_swap(0)
                else:
                    cls = a[0]
                    n = (3 * bs + sc.rng.randrange(1, bs)) if cls == "ragged" else nblk[cls] * bs
                    tw = sc.rb((n // bs + 1) * 8) if kind == "mantis" else None
                    sc.par_crypt(kind, 0, sc.rb(n), enc=(name == "DoEncrypt"), tweak=tw[:n] if tw is not None and n % 8 == 0 else tw)
            if probe:
                sc.par_crypt(kind, 0, sc.rb(2 * bs), enc=True, tweak=sc.rb(16) if kind == "mantis" else None)
            sc.par_cleanup(kind, 0)
            sc.quiesce()
    return sc
