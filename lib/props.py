"""Per-property checks.  Each function check_Cnn(work, tier, seed) returns an
Outcome plus the evidence parameters; vcheck dispatches here."""
import json, os, time, random
from core import *
from flow import *
from scen import *


def walking(n, pos, val):
    b = bytearray(n)
    b[pos] = val
    return bytes(b)


def cellsweep_blocks(kind, v):
    """Blocks in which every cell position takes a value derived from v so that,
    as v runs over all cell values, every position sees every value."""
    if kind == "s128":
        return bytes(((v + 17 * i) * 1) % 256 for i in range(16))
    # 16 nibble cells packed into 8 bytes
    cells = [((v + 5 * i) % 16) for i in range(16)]
    return bytes(cells[2 * i] * 16 + cells[2 * i + 1] for i in range(8))


# ------------------------------------------------------------------ C01

def gen_c01(seed, tier):
    sc = Sc(seed)
    thorough = tier == "thorough"
    for kind in ("s128", "s64"):
        bs = BS[kind]
        ncell = 256 if kind == "s128" else 16
        for z in (1, 2, 3):
            # published vector
            key, pt, ct = [bytes.fromhex(x) for x in SKINNY_VECTORS[(kind, z)]]
            sc.reset("c01-vec-%s-%d" % (kind, z))
            sc.ks_set_key(kind, 0, key)
            sc.ks_crypt(True, kind, 0, pt)
            sc.ks_crypt(False, kind, 0, ct)
            # (a) reduced rounds: every cell value in every cell position
            nkeys = 2 if thorough else 1
            for kk in range(nkeys):
                sc.reset("c01-rr-%s-%d-%d" % (kind, z, kk))
                sc.ks_set_key(kind, 0, sc.rb(z * bs))
                for rr in ((1, 2, 3, 4) if thorough else (1, 2)):
                    step = 1 if (rr == 1 or thorough) else 5
                    for v in range(0, ncell, step):
                        blk = cellsweep_blocks(kind, v)
                        if rr > 1:
                            blk = bytes(a ^ b for a, b in zip(blk, sc.rb(bs)))
                        sc.ks_crypt(True, kind, 0, blk, rr=rr)
                        sc.ks_crypt(False, kind, 0, blk, rr=rr)
            # (a') reduced rounds, every round-key byte position walked
            sc.reset("c01-rk-%s-%d" % (kind, z))
            for p in range(z * bs):
                for val in ((1, 0x80, 0xFF) if not thorough else (1, 2, 4, 8, 16, 32, 64, 128, 0xFF, 0xA5)):
                    sc.ks_set_key(kind, 0, walking(z * bs, p, val))
                    blk = sc.rb(bs)
                    sc.ks_crypt(True, kind, 0, blk, rr=3)
            # (b) full rounds: walking key bytes, patterns, random
            sc.reset("c01-full-%s-%d" % (kind, z))
            pos = list(range(z * bs))
            if not thorough:
                pos = pos[:: 3] + [z * bs - 1]
            for p in pos:
                sc.ks_set_key(kind, 0, walking(z * bs, p, 1 << sc.rng.randrange(8)))
                blk = sc.rb(bs)
                sc.ks_crypt(True, kind, 0, blk)
                sc.ks_crypt(False, kind, 0, blk)
            for pat in (0x00, 0xFF, 0xAA, 0x55):
                sc.ks_set_key(kind, 0, bytes([pat]) * (z * bs))
                sc.ks_crypt(True, kind, 0, bytes([pat ^ 0xFF]) * bs)
                sc.ks_crypt(False, kind, 0, bytes([pat]) * bs)
            nrand = 40 if thorough else 6
            sc.reset("c01-rand-%s-%d" % (kind, z))
            for i in range(nrand):
                if i % 4 == 0:
                    sc.ks_set_key(kind, i % 8, sc.rb(z * bs))
                blk = sc.rb(bs)
                sc.ks_crypt(True, kind, (i // 4 * 4) % 8, blk)
                # (c) decrypt arbitrary blocks, not only ciphertexts
                sc.ks_crypt(False, kind, (i // 4 * 4) % 8, blk)
    return sc


def note_distinct(out, lines, fields):
    for ln in lines:
        try:
            ev = json.loads(ln)
        except Exception:
            continue
        if ev.get("e") in ("env", "layout", "reset", "quiesce"):
            continue
        key = (ev.get("e"), ev.get("k"), ev.get("rr"), ev.get("len"),
               tuple(ev.get("in", [])[:16]) if isinstance(ev.get("in"), list) else None,
               tuple(ev.get("key", [])[:48]) if isinstance(ev.get("key"), list) else None,
               tuple(ev.get(f) if not isinstance(ev.get(f), list) else tuple(ev.get(f)) for f in fields))
        out.distinct.add(hash(key))


def sample_events(lines, n=4, maxlen=260):
    res = []
    picks = [x for x in lines if not x.startswith('{"e":"reset"') and not x.startswith('{"e":"env"')
             and not x.startswith('{"e":"layout"')]
    if not picks:
        return res
    step = max(1, len(picks) // n)
    for i in range(0, len(picks), step):
        s = picks[i]
        res.append(s if len(s) <= maxlen else s[:maxlen] + "...")
        if len(res) >= n:
            break
    return res


def check_C01(work, tier, seed):
    out = Outcome()
    b = build(work)
    sc = gen_c01(seed, tier)
    lines = conform(work, b, "C01", seed, sc.text(), out)
    note_distinct(out, lines, ("o",))
    out.samples = sample_events(lines)
    return out, dict(
        level="exploration",
        rule="SKINNY-64/128 x TK1/2/3: published vectors; reduced-round (rr=1..) sweeps in which every cell position "
             "takes every cell value, enc and dec; walking round-key bytes at 3 rounds; full-round walking key bytes, "
             "patterns and seeded random key/block pairs, enc and dec of arbitrary blocks. Oracle: SkinnySpec.tla "
             "evaluated by TLC (schedule image, output). distinct = distinct (event,kind,rr,key,input) tuples.",
        assumptions=["SkinnySpec.tla is the SKINNY specification (gated by the six published vectors and S-box/LFSR/"
                     "permutation inverse checks at TLC start-up)",
                     "input space is sampled; exhaustive only per cell position/value at reduced rounds"])


# ------------------------------------------------------------------ C02

def gen_c02(seed, tier):
    sc = Sc(seed)
    thorough = tier == "thorough"
    for r in (5, 6, 7, 8):
        pt, ct = [bytes.fromhex(x) for x in MANTIS_VECTORS[r]]
        sc.reset("c02-vec-%d" % r)
        sc.mk_set_key(0, MANTIS_KEY, r, 1)
        # fresh key => zero tweak (probe), then the vector's tweak by both paths
        sc.mk_crypt(0, pt)
        sc.mk_crypt(0, pt, tweak=bytes(8))
        sc.mk_set_tweak(0, MANTIS_TWEAK)
        sc.mk_crypt(0, pt)
        sc.mk_crypt(0, pt, tweak=MANTIS_TWEAK)
        sc.mk_set_key(1, MANTIS_KEY, r, 0)
        sc.mk_set_tweak(1, MANTIS_TWEAK)
        sc.mk_crypt(1, ct)
        sc.mk_crypt(1, ct, tweak=MANTIS_TWEAK)
    # reduced rounds: every cell value in every position, every tweak cell position
    for mode in (1, 0):
        sc.reset("c02-rr-%d" % mode)
        sc.mk_set_key(0, sc.rb(16), 5, mode)
        for rr in (0, 1, 2, 3):
            sc.mk_set_tweak(0, sc.rb(8))
            for v in range(16):
                blk = cellsweep_blocks("s64", v)
                if rr > 1:
                    blk = bytes(a ^ b for a, b in zip(blk, sc.rb(8)))
                sc.mk_crypt(0, blk, rr=rr)
                sc.mk_crypt(0, blk, tweak=cellsweep_blocks("s64", (v * 7 + 3) % 16), rr=rr)
    # walking key / tweak bytes at full rounds (k0' rotation carries, alpha, RC bytes)
    for r in ((5, 6, 7, 8) if thorough else (5, 8)):
        sc.reset("c02-walk-%d" % r)
        for p in range(16):
            for val in ((1, 0x80) if not thorough else (1, 2, 0x40, 0x80, 0xFF)):
                mode = sc.rng.randrange(2)
                sc.mk_set_key(0, walking(16, p, val), r, mode)
                blk = sc.rb(8)
                sc.mk_crypt(0, blk)
        sc.mk_set_key(0, sc.rb(16), r, 1)
        for p in range(8):
            tw = walking(8, p, 1 << sc.rng.randrange(8))
            sc.mk_set_tweak(0, tw)
            blk = sc.rb(8)
            sc.mk_crypt(0, blk)
            sc.mk_crypt(0, blk, tweak=tw)
        sc.mk_set_tweak(0, None)
        sc.mk_crypt(0, sc.rb(8))
    sc.reset("c02-rand")
    for i in range(200 if thorough else 24):
        r = 5 + sc.rng.randrange(4)
        mode = sc.rng.randrange(2)
        o = sc.rng.randrange(8)
        sc.mk_set_key(o, sc.rb(16), r, mode)
        blk = sc.rb(8)
        sc.mk_crypt(o, blk)              # fresh key: zero tweak
        tw = sc.rb(8)
        sc.mk_set_tweak(o, tw)
        sc.mk_crypt(o, blk)
        sc.mk_crypt(o, blk, tweak=tw)
        sc.mk_crypt(o, blk, tweak=sc.rb(8))
    return sc


def check_C02(work, tier, seed):
    out = Outcome()
    b = build(work)
    sc = gen_c02(seed, tier)
    lines = conform(work, b, "C02", seed, sc.text(), out)
    note_distinct(out, lines, ("o", "tweak", "mode", "nr"))
    out.samples = sample_events(lines)
    return out, dict(
        level="exploration",
        rule="MANTIS-5..8: published vectors through stored and per-call tweak paths, both modes; reduced rounds "
             "0..3 with every cell value in every block and tweak cell position; walking key and tweak bytes at full "
             "rounds; seeded random (key,tweak,block,rounds,mode) with fresh-key-zero-tweak probe. Oracle: "
             "MantisSpec.tla evaluated by TLC on schedule image (k0,k0',k1,tweak,rounds) and output.",
        assumptions=["MantisSpec.tla is the MANTIS specification (gated by the four published vectors, both directions)",
                     "input space is sampled"])


CHECKS = {"C01": check_C01, "C02": check_C02}
