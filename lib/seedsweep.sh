#!/bin/sh
# run every quick check under several seeds: a violation or a broken check on the
# unchanged tree under ANY seed is a false alarm of the machinery
cd "$(dirname "$0")/.."
for s in ${SEEDS:-2 3 7 11 12345 987654321}; do
  echo "== VERIF_SEED=$s"
  VERIF_SEED=$s ./lib/runall.sh quick 2>&1 | grep -v "^WARNING" | awk '{ if ($2 != "rc=0") print "ATTENTION " $0; else print $1, $2, $3 }'
done
