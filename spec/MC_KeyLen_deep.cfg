SPECIFICATION Spec
CONSTANTS
  ROWS = 4
  WB = 4
  MaxExtra = 40
  Shipped = FALSE
INVARIANT KeyLenLaw
CHECK_DEADLOCK FALSE
