----------------------------- MODULE SkinnySpec -----------------------------
(***************************************************************************)
(* Reference definition of the SKINNY-64 and SKINNY-128 tweakable block    *)
(* ciphers, transcribed from the specification paper (Beierle et al.,      *)
(* "The SKINNY Family of Block Ciphers and its Low-Latency Variant MANTIS",*)
(* ePrint 2016/660), cell level, row-major 4x4 state.  It is deliberately  *)
(* structured like the paper (cells, permutation tables, the bit-level     *)
(* description of the 8-bit S-box) and unlike the bit-sliced word-oriented *)
(* C code it is an oracle for.                                             *)
(*                                                                         *)
(* Conventions.  A block is a tuple of bytes (0..255).  Internally a state *)
(* is a tuple of 16 cells, s-bit each (s = 4: nibbles, s = 8: bytes).      *)
(* For s = 4 byte i of the block holds cell 2i in its HIGH nibble and cell *)
(* 2i+1 in its low nibble, as in the paper's test vectors.                 *)
(*                                                                         *)
(* Evaluation rule (DESIGN 9.1): every iterated computation is a FoldLeft  *)
(* over explicit tuples; no RECURSIVE operator with LET-bound arguments.   *)
(***************************************************************************)
EXTENDS Naturals, Sequences, SequencesExt, Bitwise, TLC

----------------------------------------------------------------------------
(* Small helpers on explicit 16-tuples (strict TupleValues in TLC).        *)

Perm16(s, p) == << s[p[1]+1],  s[p[2]+1],  s[p[3]+1],  s[p[4]+1],
                   s[p[5]+1],  s[p[6]+1],  s[p[7]+1],  s[p[8]+1],
                   s[p[9]+1],  s[p[10]+1], s[p[11]+1], s[p[12]+1],
                   s[p[13]+1], s[p[14]+1], s[p[15]+1], s[p[16]+1] >>

Xor16(a, b) == << a[1] ^^ b[1],   a[2] ^^ b[2],   a[3] ^^ b[3],   a[4] ^^ b[4],
                  a[5] ^^ b[5],   a[6] ^^ b[6],   a[7] ^^ b[7],   a[8] ^^ b[8],
                  a[9] ^^ b[9],   a[10] ^^ b[10], a[11] ^^ b[11], a[12] ^^ b[12],
                  a[13] ^^ b[13], a[14] ^^ b[14], a[15] ^^ b[15], a[16] ^^ b[16] >>

Tab16(s, t) == << t[s[1]+1],  t[s[2]+1],  t[s[3]+1],  t[s[4]+1],
                  t[s[5]+1],  t[s[6]+1],  t[s[7]+1],  t[s[8]+1],
                  t[s[9]+1],  t[s[10]+1], t[s[11]+1], t[s[12]+1],
                  t[s[13]+1], t[s[14]+1], t[s[15]+1], t[s[16]+1] >>

X3(a, b, c) == (a ^^ b) ^^ c

Zero16 == <<0,0,0,0, 0,0,0,0, 0,0,0,0, 0,0,0,0>>

XorSeq(a, b) == SubSeq([i \in 1..Len(a) |-> a[i] ^^ b[i]], 1, Len(a))

----------------------------------------------------------------------------
(* S-boxes.                                                                *)

S4    == <<12, 6, 9, 0, 1, 10, 2, 11, 3, 8, 5, 13, 4, 14, 7, 15>>
S4inv == <<3, 4, 6, 8, 12, 10, 1, 14, 9, 2, 5, 7, 0, 11, 13, 15>>

Bit(x, i) == (x \div (2^i)) % 2

(* One iteration of the paper's 8-bit S-box description:                   *)
(*   (x7..x0) -> (x7,x6,x5,x4 + NOR(x7,x6),x3,x2,x1,x0 + NOR(x3,x2))       *)
S8Step(x) ==
    LET n76 == IF Bit(x,7) = 1 \/ Bit(x,6) = 1 THEN 0 ELSE 1
        n32 == IF Bit(x,3) = 1 \/ Bit(x,2) = 1 THEN 0 ELSE 1
    IN  (x ^^ (n76 * 16)) ^^ n32

(* Bit permutation (x7..x0) -> (x2,x1,x7,x6,x4,x0,x3,x5)                   *)
S8Perm(x) == Bit(x,2) * 128 + Bit(x,1) * 64 + Bit(x,7) * 32 + Bit(x,6) * 16
           + Bit(x,4) * 8   + Bit(x,0) * 4  + Bit(x,3) * 2  + Bit(x,5)

(* Swap of bits 1 and 2 in the last iteration                              *)
S8Swap(x) == (x - Bit(x,1) * 2 - Bit(x,2) * 4) + Bit(x,2) * 2 + Bit(x,1) * 4

S8Def(x) == S8Swap(S8Step(S8Perm(S8Step(S8Perm(S8Step(S8Perm(S8Step(x))))))))

(* Literal tables (strict tuples, fast to index).  SkinnySelfCheck verifies   *)
(* S8[x] = S8Def(x) for all 256 inputs and that S8inv is its inverse.         *)
S8 == <<
    101,  76, 106,  66,  75,  99,  67, 107,  85, 117,  90, 122,  83, 115,  91, 123,
     53, 140,  58, 129, 137,  51, 128,  59, 149,  37, 152,  42, 144,  35, 153,  43,
    229, 204, 232, 193, 201, 224, 192, 233, 213, 245, 216, 248, 208, 240, 217, 249,
    165,  28, 168,  18,  27, 160,  19, 169,   5, 181,  10, 184,   3, 176,  11, 185,
     50, 136,  60, 133, 141,  52, 132,  61, 145,  34, 156,  44, 148,  36, 157,  45,
     98,  74, 108,  69,  77, 100,  68, 109,  82, 114,  92, 124,  84, 116,  93, 125,
    161,  26, 172,  21,  29, 164,  20, 173,   2, 177,  12, 188,   4, 180,  13, 189,
    225, 200, 236, 197, 205, 228, 196, 237, 209, 241, 220, 252, 212, 244, 221, 253,
     54, 142,  56, 130, 139,  48, 131,  57, 150,  38, 154,  40, 147,  32, 155,  41,
    102,  78, 104,  65,  73,  96,  64, 105,  86, 118,  88, 120,  80, 112,  89, 121,
    166,  30, 170,  17,  25, 163,  16, 171,   6, 182,   8, 186,   0, 179,   9, 187,
    230, 206, 234, 194, 203, 227, 195, 235, 214, 246, 218, 250, 211, 243, 219, 251,
     49, 138,  62, 134, 143,  55, 135,  63, 146,  33, 158,  46, 151,  39, 159,  47,
     97,  72, 110,  70,  79, 103,  71, 111,  81, 113,  94, 126,  87, 119,  95, 127,
    162,  24, 174,  22,  31, 167,  23, 175,   1, 178,  14, 190,   7, 183,  15, 191,
    226, 202, 238, 198, 207, 231, 199, 239, 210, 242, 222, 254, 215, 247, 223, 255 >>

S8inv == <<
    172, 232, 104,  60, 108,  56, 168, 236, 170, 174,  58,  62, 106, 110, 234, 238,
    166, 163,  51,  54, 102,  99, 227, 230, 225, 164,  97,  52,  49, 100, 161, 228,
    141, 201,  73,  29,  77,  25, 137, 205, 139, 143,  27,  31,  75,  79, 203, 207,
    133, 192,  64,  21,  69,  16, 128, 197, 130, 135,  18,  23,  66,  71, 194, 199,
    150, 147,   3,   6,  86,  83, 211, 214, 209, 148,  81,   4,   1,  84, 145, 212,
    156, 216,  88,  12,  92,   8, 152, 220, 154, 158,  10,  14,  90,  94, 218, 222,
    149, 208,  80,   5,  85,   0, 144, 213, 146, 151,   2,   7,  82,  87, 210, 215,
    157, 217,  89,  13,  93,   9, 153, 221, 155, 159,  11,  15,  91,  95, 219, 223,
     22,  19, 131, 134,  70,  67, 195, 198,  65,  20, 193, 132,  17,  68, 129, 196,
     28,  72, 200, 140,  76,  24, 136, 204,  26,  30, 138, 142,  74,  78, 202, 206,
     53,  96, 224, 165, 101,  48, 160, 229,  50,  55, 162, 167,  98, 103, 226, 231,
     61, 105, 233, 173, 109,  57, 169, 237,  59,  63, 171, 175, 107, 111, 235, 239,
     38,  35, 179, 182, 118, 115, 243, 246, 113,  36, 241, 180,  33, 116, 177, 244,
     44, 120, 248, 188, 124,  40, 184, 252,  42,  46, 186, 190, 122, 126, 250, 254,
     37, 112, 240, 181, 117,  32, 176, 245,  34,  39, 178, 183, 114, 119, 242, 247,
     45, 121, 249, 189, 125,  41, 185, 253,  43,  47, 187, 191, 123, 127, 251, 255 >>

----------------------------------------------------------------------------
(* Tweakey schedule.                                                       *)

PT == <<9, 15, 8, 13, 10, 14, 12, 11, 0, 1, 2, 3, 4, 5, 6, 7>>

(* LFSRs on one cell *)
L2_4(x) == ((x * 2) % 16) + (Bit(x,3) ^^ Bit(x,2))
L3_4(x) == (x \div 2) + 8 * (Bit(x,0) ^^ Bit(x,3))
L2_8(x) == ((x * 2) % 256) + (Bit(x,7) ^^ Bit(x,5))
L3_8(x) == (x \div 2) + 128 * (Bit(x,0) ^^ Bit(x,6))

L2T4 == SubSeq([i \in 1..16 |-> L2_4(i-1)], 1, 16)
L3T4 == SubSeq([i \in 1..16 |-> L3_4(i-1)], 1, 16)
L2T8 == SubSeq([i \in 1..256 |-> L2_8(i-1)], 1, 256)
L3T8 == SubSeq([i \in 1..256 |-> L3_8(i-1)], 1, 256)

(* Apply a cell table to the first two rows only *)
TopRows(s, t) == << t[s[1]+1], t[s[2]+1], t[s[3]+1], t[s[4]+1],
                    t[s[5]+1], t[s[6]+1], t[s[7]+1], t[s[8]+1],
                    s[9], s[10], s[11], s[12], s[13], s[14], s[15], s[16] >>

(* 6-bit round-constant LFSR, updated before use *)
RcNext(rc) == ((rc * 2) % 64) + ((Bit(rc,5) ^^ Bit(rc,4)) ^^ 1)

(* The tweakey state is <<TK1,TK2,TK3,rc>>; unused TKs are Zero16.          *)
TkNext(cw, tk) ==
    << Perm16(tk[1], PT),
       TopRows(Perm16(tk[2], PT), IF cw = 4 THEN L2T4 ELSE L2T8),
       TopRows(Perm16(tk[3], PT), IF cw = 4 THEN L3T4 ELSE L3T8),
       RcNext(tk[4]) >>

(* Round tweakey material added in one round, as a full 16-cell array:     *)
(* rows 0,1 of TK1+TK2+TK3, constants c0,c1,c2 in column 0 of rows 0,1,2,  *)
(* and -- for the tweakable mode recommended in the paper -- the constant  *)
(* 0x2 in the top cell of the third column.                                *)
RoundAdd(tk, dom) ==
    LET x  == Xor16(Xor16(tk[1], tk[2]), tk[3])
        rc == RcNext(tk[4])
    IN << x[1] ^^ (rc % 16), x[2], x[3] ^^ (IF dom THEN 2 ELSE 0), x[4],
          x[5] ^^ (rc \div 16), x[6], x[7], x[8],
          2, 0, 0, 0,
          0, 0, 0, 0 >>

(* Sequence of the first r round additions *)
RoundAdds(cw, tk1, tk2, tk3, dom, r) ==
    LET step(acc, i) == << Append(acc[1], RoundAdd(acc[2], dom)), TkNext(cw, acc[2]) >>
    IN  FoldLeft(step, << <<>>, <<tk1, tk2, tk3, 0>> >>, [i \in 1..r |-> i])[1]

----------------------------------------------------------------------------
(* Round function.                                                         *)

SR    == <<0,1,2,3, 7,4,5,6, 10,11,8,9, 13,14,15,12>>
SRinv == <<0,1,2,3, 5,6,7,4, 10,11,8,9, 15,12,13,14>>

Mix(s) == << X3(s[1], s[9], s[13]),  X3(s[2], s[10], s[14]),
             X3(s[3], s[11], s[15]), X3(s[4], s[12], s[16]),
             s[1], s[2], s[3], s[4],
             s[5] ^^ s[9],  s[6] ^^ s[10], s[7] ^^ s[11], s[8] ^^ s[12],
             s[1] ^^ s[9],  s[2] ^^ s[10], s[3] ^^ s[11], s[4] ^^ s[12] >>

MixInv(y) == << y[5], y[6], y[7], y[8],
                X3(y[5], y[9], y[13]),  X3(y[6], y[10], y[14]),
                X3(y[7], y[11], y[15]), X3(y[8], y[12], y[16]),
                y[5] ^^ y[13], y[6] ^^ y[14], y[7] ^^ y[15], y[8] ^^ y[16],
                y[1] ^^ y[13], y[2] ^^ y[14], y[3] ^^ y[15], y[4] ^^ y[16] >>

SkRound(cw, s, add) ==
    Mix(Perm16(Xor16(Tab16(s, IF cw = 4 THEN S4 ELSE S8), add), SR))

SkInvRound(cw, s, add) ==
    Tab16(Xor16(Perm16(MixInv(s), SRinv), add), IF cw = 4 THEN S4inv ELSE S8inv)

(* Encrypt / decrypt a cell state with a given sequence of round additions *)
EncCells(cw, s, adds) ==
    LET step(acc, a) == SkRound(cw, acc, a) IN FoldLeft(step, s, adds)
DecCells(cw, s, adds) ==
    LET step(acc, a) == SkInvRound(cw, acc, a) IN FoldLeft(step, s, Reverse(adds))

----------------------------------------------------------------------------
(* Bytes <-> cells.                                                        *)

CellsOf(cw, b) ==
    IF cw = 8 THEN b
    ELSE << b[1] \div 16, b[1] % 16, b[2] \div 16, b[2] % 16,
            b[3] \div 16, b[3] % 16, b[4] \div 16, b[4] % 16,
            b[5] \div 16, b[5] % 16, b[6] \div 16, b[6] % 16,
            b[7] \div 16, b[7] % 16, b[8] \div 16, b[8] % 16 >>

BytesOf(cw, c) ==
    IF cw = 8 THEN c
    ELSE << c[1]*16 + c[2],   c[3]*16 + c[4],   c[5]*16 + c[6],   c[7]*16 + c[8],
            c[9]*16 + c[10],  c[11]*16 + c[12], c[13]*16 + c[14], c[15]*16 + c[16] >>

BlockBytes(cw) == IF cw = 4 THEN 8 ELSE 16

(* tk: tweakey bytes, z * BlockBytes long, z in 1..3 *)
TkPart(cw, tk, z) ==
    LET bs == BlockBytes(cw) IN
    IF Len(tk) >= z * bs THEN CellsOf(cw, SubSeq(tk, (z-1)*bs + 1, z*bs)) ELSE Zero16

FullRounds(cw, z) ==
    IF cw = 4 THEN (CASE z = 1 -> 32 [] z = 2 -> 36 [] z = 3 -> 40)
              ELSE (CASE z = 1 -> 40 [] z = 2 -> 48 [] z = 3 -> 56)

(* Round additions for the first r rounds of the cipher with tweakey tk;   *)
(* dom = TRUE selects the tweakable mode (domain constant).                *)
SkAdds(cw, tk, dom, r) ==
    RoundAdds(cw, TkPart(cw, tk, 1), TkPart(cw, tk, 2), TkPart(cw, tk, 3), dom, r)

(* The SKINNY cipher: cw in {4,8}; tk of 1..3 blocks.                      *)
SkinnyEnc(cw, tk, blk) ==
    BytesOf(cw, EncCells(cw, CellsOf(cw, blk),
                         SkAdds(cw, tk, FALSE, FullRounds(cw, Len(tk) \div BlockBytes(cw)))))
SkinnyDec(cw, tk, blk) ==
    BytesOf(cw, DecCells(cw, CellsOf(cw, blk),
                         SkAdds(cw, tk, FALSE, FullRounds(cw, Len(tk) \div BlockBytes(cw)))))

(* Tweakable mode: TK1 = tweak (with the domain constant), TK2/TK3 = key.  *)
SkinnyTEnc(cw, key, tweak, blk) ==
    LET tk == tweak \o key IN
    BytesOf(cw, EncCells(cw, CellsOf(cw, blk),
                         SkAdds(cw, tk, TRUE, FullRounds(cw, Len(tk) \div BlockBytes(cw)))))
SkinnyTDec(cw, key, tweak, blk) ==
    LET tk == tweak \o key IN
    BytesOf(cw, DecCells(cw, CellsOf(cw, blk),
                         SkAdds(cw, tk, TRUE, FullRounds(cw, Len(tk) \div BlockBytes(cw)))))

(* The schedule is XOR-linear in TK1: contribution of a TK1 value alone (no   *)
(* constants) to the first r round additions, and XOR of two addition lists.  *)
(* Used to model the one implementation-defined corner in which the code's    *)
(* incremental tweak update is applied to a schedule that was not keyed as a  *)
(* tweakable one (see SkinnyTrace, key state "plain").                        *)
Tk1Contrib(cw, t, r) ==
    LET raw(tk) == LET x == tk[1] IN << x[1], x[2], x[3], x[4], x[5], x[6], x[7], x[8],
                                       0, 0, 0, 0, 0, 0, 0, 0 >>
        step(acc, i) == << Append(acc[1], raw(acc[2])), TkNext(cw, acc[2]) >>
    IN  FoldLeft(step, << <<>>, <<CellsOf(cw, t), Zero16, Zero16, 0>> >>, [i \in 1..r |-> i])[1]

XorAdds(a, b) == SubSeq([i \in 1..Len(a) |-> Xor16(a[i], b[i])], 1, Len(a))

(* Image of one round addition as the bytes of rows 0 and 1 (what a         *)
(* precomputed key schedule would store; c2 is not part of it).             *)
AddImage(cw, a) ==
    IF cw = 8 THEN SubSeq(a, 1, 8)
    ELSE << a[1]*16 + a[2], a[3]*16 + a[4], a[5]*16 + a[6], a[7]*16 + a[8] >>

SchedImage(cw, adds) ==
    LET step(acc, a) == acc \o AddImage(cw, a) IN FoldLeft(step, <<>>, adds)

----------------------------------------------------------------------------
(* Self-checks, evaluated by TLC when the module is loaded by any model.   *)

Range16  == 1..16
S8First16 == <<101, 76, 106, 66, 75, 99, 67, 107, 85, 117, 90, 122, 83, 115, 91, 123>>

TV64_64  == [pt  |-> <<6, 3, 79, 149, 119, 36, 209, 157>>,
             ct  |-> <<187, 57, 223, 178, 66, 155, 138, 199>>,
             key |-> <<245, 38, 152, 38, 252, 104, 18, 56>>]
TV64_128 == [pt  |-> <<207, 22, 207, 232, 253, 15, 152, 170>>,
             ct  |-> <<108, 237, 161, 244, 61, 233, 43, 158>>,
             key |-> <<158, 185, 54, 64, 208, 136, 218, 99,
                       118, 163, 157, 28, 139, 234, 113, 225>>]
TV64_192 == [pt  |-> <<83, 12, 97, 211, 94, 134, 99, 195>>,
             ct  |-> <<221, 44, 241, 168, 243, 48, 48, 60>>,
             key |-> <<237, 0, 200, 91, 18, 13, 104, 97,
                       135, 83, 226, 75, 253, 144, 143, 96,
                       178, 219, 180, 27, 66, 45, 252, 208>>]
TV128_128 == [pt  |-> <<242, 10, 219, 14, 176, 139, 100, 138, 59, 46, 238, 209, 240, 173, 218, 20>>,
              ct  |-> <<34, 255, 48, 212, 152, 234, 98, 215, 228, 91, 71, 110, 51, 103, 91, 116>>,
              key |-> <<79, 85, 207, 176, 82, 12, 172, 82, 253, 146, 193, 95, 55, 7, 62, 147>>]
TV128_256 == [pt  |-> <<58, 12, 71, 118, 122, 38, 166, 141, 211, 130, 166, 149, 231, 2, 46, 37>>,
              ct  |-> <<183, 49, 217, 138, 75, 222, 20, 122, 126, 212, 166, 241, 107, 155, 88, 127>>,
              key |-> <<0, 156, 236, 129, 96, 93, 74, 193, 210, 174, 158, 48, 133, 215, 161, 243,
                        26, 193, 35, 235, 252, 0, 253, 220, 240, 16, 70, 206, 237, 223, 202, 179>>]
TV128_384 == [pt  |-> <<163, 153, 75, 102, 173, 133, 163, 69, 159, 68, 233, 43, 8, 245, 80, 203>>,
              ct  |-> <<148, 236, 245, 137, 226, 1, 124, 96, 27, 56, 198, 52, 106, 16, 220, 250>>,
              key |-> <<223, 136, 149, 72, 207, 199, 234, 82, 210, 150, 51, 147, 1, 121, 116, 73,
                        171, 88, 138, 52, 164, 127, 26, 178, 223, 233, 200, 41, 63, 190, 169, 165,
                        171, 26, 250, 194, 97, 16, 18, 205, 140, 239, 149, 38, 24, 195, 235, 232>>]

VecOK(cw, v) == /\ SkinnyEnc(cw, v.key, v.pt) = v.ct
                /\ SkinnyDec(cw, v.key, v.ct) = v.pt

SkinnySelfCheck ==
    /\ \A i \in 1..16 : S8[i] = S8First16[i]
    /\ \A i \in 1..256 : S8[i] = S8Def(i - 1)
    /\ \A i \in 1..16 : S4inv[S4[i]+1] = i - 1
    /\ \A i \in 1..256 : S8inv[S8[i]+1] = i - 1
    /\ {S8[i] : i \in 1..256} = 0..255
    /\ \A i \in 1..16  : L3T4[L2T4[i]+1] = i - 1
    /\ \A i \in 1..256 : L3T8[L2T8[i]+1] = i - 1
    /\ \A i \in 1..16 : SRinv[SR[i]+1] = i - 1
    /\ VecOK(4, TV64_64) /\ VecOK(4, TV64_128) /\ VecOK(4, TV64_192)
    /\ VecOK(8, TV128_128) /\ VecOK(8, TV128_256) /\ VecOK(8, TV128_384)

=============================================================================
