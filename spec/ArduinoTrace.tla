---------------------------- MODULE ArduinoTrace ----------------------------
(***************************************************************************)
(* Trace validation of the Arduino port (C19): the eleven block-cipher     *)
(* classes and the CTR<T> template are driven by harness/drv_ard.cpp with  *)
(* the same scenario language and the same event vocabulary as the C       *)
(* library, so their traces are validated by the SAME contract             *)
(* (SkinnyTrace).  Class <-> object kind: Skinny128_128/256/384 and        *)
(* Skinny64_64/128/192 are plain key schedules keyed with 1/2/3 blocks;    *)
(* the _Tweaked classes are tweakable key schedules; Mantis8 is a Mantis   *)
(* schedule with rounds = 8 (setKey keys for encryption; decryption is     *)
(* setKey + swapModes); CTR<T> with the default counter size is a CTR      *)
(* object served by the "gen" back end.  The one Arduino-only call is      *)
(* clear(), which must wipe the whole schedule.                            *)
(***************************************************************************)
EXTENDS SkinnyTrace

TArdClear ==
    /\ IsEvent("ard_clear")
    /\ Chk("state bytes left after clear()", 0, Ev.nzstate)
    /\ LET ev == Ev
       IN  CASE ev.fam = "ks"  -> ks' = [ks EXCEPT ![ev.k][ev.o] = KsUnset] /\ UNCHANGED <<tks, mks>>
             [] ev.fam = "tks" -> tks' = [tks EXCEPT ![ev.k][ev.o] = TksUnset(ev.k)] /\ UNCHANGED <<ks, mks>>
             [] ev.fam = "mk"  -> mks' = [mks EXCEPT ![ev.o] = MksUnset] /\ UNCHANGED <<ks, tks>>
    /\ NoHeap(Ev)
    /\ UNCHANGED <<env, ctr, par>>

ArdNext == TraceNext \/ TArdClear
ArdSpec == TraceInit /\ [][ArdNext]_vars
=============================================================================
