---------------------------- MODULE ArduinoTrace ----------------------------
(***************************************************************************)
(* Trace validation of the Arduino port (C19): the eleven block-cipher     *)
(* classes and the CTR<T> template are driven by harness/drv_ard.cpp with  *)
(* the same scenario language and the same event vocabulary as the C       *)
(* library, so their traces are validated by the SAME contract             *)
(* (SkinnyTrace).  Class <-> object kind: Skinny128_128/256/384 and        *)
(* Skinny64_64/128/192 are plain key schedules keyed with 1/2/3 blocks;    *)
(* the _Tweaked classes are tweakable key schedules; Mantis8 is a Mantis   *)
(* schedule with rounds = 8 (setKey keys for encryption; decryption is     *)
(* setKey + swapModes); CTR<T> with the default counter size is a CTR      *)
(* object served by the "gen" back end.  The one Arduino-only call is      *)
(* clear(), which must wipe the whole schedule.                            *)
(***************************************************************************)
EXTENDS SkinnyTrace

TArdClear ==
    /\ IsEvent("ard_clear")
    /\ Chk("state bytes left after clear()", 0, Ev.nzstate)
    /\ LET ev == Ev
       IN  CASE ev.fam = "ks"  -> ks' = [ks EXCEPT ![ev.k][ev.o] = KsUnset] /\ UNCHANGED <<tks, mks>>
             [] ev.fam = "tks" -> tks' = [tks EXCEPT ![ev.k][ev.o] = TksUnset(ev.k)] /\ UNCHANGED <<ks, mks>>
             [] ev.fam = "mk"  -> mks' = [mks EXCEPT ![ev.o] = MksUnset] /\ UNCHANGED <<ks, tks>>
             [] ev.fam = "ctr" -> UNCHANGED <<ks, tks, mks>>
    /\ NoHeap(Ev)
    \* CTR<T>::clear(): no key any more, all-zero counter, nothing buffered (the stream restarts at
    \* byte 0 of E(0) once a key is set); the counter width chosen by setCounterSize stays
    /\ IF Ev.fam = "ctr"
       THEN ctr' = [ctr EXCEPT !["s128"][Ev.o].key = KeyNone("s128"), !["s128"][Ev.o].pos = PosInit(16)]
       ELSE UNCHANGED ctr
    /\ UNCHANGED <<env, par>>

(* CTRCommon::setCounterSize(n), n in 1..16: from now on only the low n bytes of  *)
(* the counter block are incremented (modulo 2^(8n)); the bytes above are a fixed  *)
(* prefix.  Specified at block boundaries of the stream (the scenarios call it     *)
(* right after setIV); the C library has no counterpart (its width is always 16).  *)
TArdSetCounterSize ==
    /\ IsEvent("ard_set_counter_size")
    /\ LET ev == Ev  o == ev.o
           valid == ev.size >= 1 /\ ev.size <= 16
       IN  /\ ctr["s128"][o].pos[2] = 0
           /\ Chk("setCounterSize ret", IF valid THEN 1 ELSE 0, ev.ret)
           /\ IF valid THEN ctr' = [ctr EXCEPT !["s128"][o].csz = ev.size] ELSE UNCHANGED ctr
           /\ NoHeap(ev)
    /\ UNCHANGED <<env, ks, tks, mks, par>>

ArdNext == TraceNext \/ TArdClear \/ TArdSetCounterSize
ArdSpec == TraceInit /\ [][ArdNext]_vars
=============================================================================
