------------------------------- MODULE MC_Par -------------------------------
(***************************************************************************)
(* Design-level model of the parallel ECB loops (C07): a batch loop over   *)
(* parallel_size bytes served by the vector table (if any), then a         *)
(* single-block loop for the remainder; byte counts that are not whole     *)
(* blocks are rejected.  The block function is symbolic: block i of the    *)
(* input maps to <<"E", i>> whichever path computes it (the vector code    *)
(* computing something else is a conformance matter, decided on traces).   *)
(* Checked for every byte count 0..MaxBytes, psize in PSizes, with and     *)
(* without vector table: result = map over blocks, nothing past `size` is  *)
(* touched.  A loop variable narrower than the length type must fail.      *)
(***************************************************************************)
EXTENDS Integers, Sequences, TLC

CONSTANTS BSZ, PSizes, MaxBytes, Variant,
          LenBits     \* Variant "narrow": the loops count the bytes left in a variable of LenBits bits
                      \* (the request length itself is wider: size_t vs unsigned, requests >= 4 GiB)

VARIABLES done, size, psize, vt, ret, outb, touched
vars == <<done, size, psize, vt, ret, outb, touched>>

RECURSIVE Batches(_, _, _, _)
(* returns <<position, set of blocks produced by the vector path>> *)
Batches(pos, left, ps, acc) ==
    IF left >= ps THEN Batches(pos + ps, left - ps, ps, acc \cup {b : b \in (pos \div BSZ)..((pos + ps) \div BSZ - 1)})
    ELSE <<pos, left, acc>>

RECURSIVE Singles(_, _, _)
Singles(pos, left, acc) ==
    IF left >= BSZ THEN Singles(pos + BSZ, left - BSZ, acc \cup {pos \div BSZ}) ELSE <<pos, left, acc>>

Narrow(n) == IF Variant = "narrow" THEN n % (2 ^ LenBits) ELSE n

Init == /\ done = FALSE /\ size \in 0..MaxBytes /\ psize \in PSizes /\ vt \in BOOLEAN
        /\ ret = -1 /\ outb = {} /\ touched = 0

Crypt ==
    /\ ~done /\ done' = TRUE
    /\ IF size % BSZ # 0
       THEN ret' = 0 /\ outb' = {} /\ touched' = 0
       ELSE LET b == IF vt THEN Batches(0, Narrow(size), psize * BSZ, {}) ELSE <<0, Narrow(size), {}>>
                s == IF Variant = "noremainder" THEN <<b[1], b[2], {}>> ELSE Singles(b[1], b[2], {})
            IN  /\ ret' = 1
                /\ outb' = b[3] \cup s[3]
                /\ touched' = s[1]
    /\ UNCHANGED <<size, psize, vt>>

Next == Crypt
Spec == Init /\ [][Next]_vars

MapLaw == done => IF size % BSZ # 0 THEN ret = 0 /\ outb = {}
                  ELSE /\ ret = 1
                       /\ outb = {b \in 0..(size \div BSZ) : b < size \div BSZ}
                       /\ touched = size
=============================================================================
