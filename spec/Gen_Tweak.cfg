SPECIFICATION Spec
CONSTANTS
  N = 2
  Vals = {0, 1}
  Keys = {"k1"}
  MaxCalls = 0
  Variant = "ok"
INVARIANTS HistoryIndependence RememberedIsLast
CHECK_DEADLOCK FALSE
