SPECIFICATION Spec
CONSTANTS
  Garbage = {0, 1, 2, 7}
  Shipped = {}
  MaxCalls = 5
INVARIANTS SelectWidest SelectStable NeverExceeds
CHECK_DEADLOCK FALSE
