SPECIFICATION Spec
CONSTANTS
  Keys = {"ka", "kb"}
  Tweaks = {"zero", "t1", "t2"}
  MaxCalls = 0
  Variant = "ok"
INVARIANT ModeAlgebra
CHECK_DEADLOCK FALSE
