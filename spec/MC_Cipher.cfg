SPECIFICATION Spec
CONSTANTS
  N = 1024
INVARIANT Laws
CHECK_DEADLOCK FALSE
