SPECIFICATION Spec
CONSTANTS
  Threads = {1, 2, 3}
  NCalls = 2
  Variant = "cache"
INVARIANTS RaceFree SeqEquivalent
CHECK_DEADLOCK FALSE
