----------------------------- MODULE ToolsTrace -----------------------------
(***************************************************************************)
(* Trace validation of the example tools (C20).  One event per tool run,   *)
(* recorded by the Python driver from the binaries built from the tree:    *)
(*   tool  "ctr" | "tweak" | "ecb";  bs 8|16;  key bytes;  tw = counter or *)
(*   tweak bytes as given with -c/-t (twgiven = 0: option absent);  dec;   *)
(*   input file bytes;  exit status rc;  whether the output file exists;   *)
(*   output file bytes.                                                    *)
(* The contract:                                                           *)
(*   skinny-ctr    out = in xor E(c), E(c+1), ...  (same length), key of   *)
(*                 any legal length = zero-padded, short counter left-     *)
(*                 padded, no -c = all-zero counter                        *)
(*   skinny-ecb    out = E / D of every whole block, partial tail dropped  *)
(*   skinny-tweak  block i is processed under tweak T + i (big-endian      *)
(*                 increment of the bytes given, then zero-extended),      *)
(*                 TK1 = tweak; no -t = all-zero tweak of block size       *)
(*   invalid options: non-zero exit, no output file.                       *)
(*   The output file is exactly that, whatever a file of that name held    *)
(*   before the run (longer, shorter, equal length).                       *)
(***************************************************************************)
EXTENDS Contract, SkinnySpec, Json, IOUtils, TLC

TraceLog == ndJsonDeserialize(IOEnv.TRACE)

VARIABLE l
vars == <<l>>

Chk(what, expected, actual) ==
    IF expected = actual THEN TRUE
    ELSE PrintT(<<"MISMATCH at line", l, what, "expected", expected, "logged", actual>>) /\ FALSE

KindOf(bs) == IF bs = 16 THEN "s128" ELSE "s64"
CW(kind) == IF kind = "s128" THEN 8 ELSE 4

PlainAdds(kind, key) ==
    LET tk == PadKey(kind, key, Len(key))
    IN  SkAdds(CW(kind), tk, FALSE, FullRounds(CW(kind), Len(tk) \div BS(kind)))

TweakAdds(kind, key, tw) ==
    LET tk == tw \o PadKey(kind, key, Len(key))
    IN  SkAdds(CW(kind), tk, TRUE, FullRounds(CW(kind), Len(tk) \div BS(kind)))

EncB(kind, adds, blk) == BytesOf(CW(kind), EncCells(CW(kind), CellsOf(CW(kind), blk), adds))
DecB(kind, adds, blk) == BytesOf(CW(kind), DecCells(CW(kind), CellsOf(CW(kind), blk), adds))

CtrOut(kind, key, c, data) ==
    LET bs   == BS(kind)
        n    == Len(data)
        nb   == (n + bs - 1) \div bs
        adds == PlainAdds(kind, key)
        ksq  == SubSeq([b \in 1..nb |-> EncB(kind, adds, AddBE(256, c, b - 1))], 1, nb)
    IN  SubSeq([i \in 1..n |-> data[i] ^^ ksq[((i - 1) \div bs) + 1][((i - 1) % bs) + 1]], 1, n)

EcbOut(kind, key, dec, data) ==
    LET bs   == BS(kind)
        nb   == Len(data) \div bs
        adds == PlainAdds(kind, key)
        step(acc, b) == acc \o (IF dec THEN DecB(kind, adds, SubSeq(data, (b-1)*bs + 1, b*bs))
                                       ELSE EncB(kind, adds, SubSeq(data, (b-1)*bs + 1, b*bs)))
    IN  FoldLeft(step, <<>>, [b \in 1..nb |-> b])

(* tweak of block i (0-based): the bytes given are a big-endian counter *)
TweakOf(kind, tw, i) == PadTweak(kind, AddBE(256, tw, i), Len(tw), FALSE)

TweakOut(kind, key, tw, dec, data) ==
    LET bs   == BS(kind)
        nb   == Len(data) \div bs
        step(acc, b) ==
            LET adds == TweakAdds(kind, key, TweakOf(kind, tw, b - 1))
                blk  == SubSeq(data, (b-1)*bs + 1, b*bs)
            IN  acc \o (IF dec THEN DecB(kind, adds, blk) ELSE EncB(kind, adds, blk))
    IN  FoldLeft(step, <<>>, [b \in 1..nb |-> b])

(* The hex syntax of -k / -c / -t (examples/options.c): hex digits in either case, two per   *)
(* byte; blanks, colons and dots may separate bytes, and a separator after a single digit   *)
(* ends that byte ("1:2:a:ff" = 01 02 0a ff); a lone digit at the very end is dropped.      *)
(* The option text is logged as character codes.                                            *)
HexVal(c) == IF c >= 48 /\ c <= 57 THEN c - 48
             ELSE IF c >= 65 /\ c <= 70 THEN c - 55
             ELSE IF c >= 97 /\ c <= 102 THEN c - 87 ELSE 0 - 1
ParseHex(text) ==
    LET step(acc, c) ==       \* acc = <<bytes, value, digits seen in this byte>>
            IF HexVal(c) >= 0
            THEN IF acc[3] = 1 THEN << Append(acc[1], acc[2] * 16 + HexVal(c)), 0, 0 >>
                 ELSE << acc[1], HexVal(c), 1 >>
            ELSE IF acc[3] = 1 THEN << Append(acc[1], acc[2]), 0, 0 >> ELSE acc
    IN  FoldLeft(step, << <<>>, 0, 0 >>, text)[1]

Ev == TraceLog[l]
IsEvent(e) == l <= Len(TraceLog) /\ TraceLog[l].e = e /\ l' = l + 1

TTool ==
    /\ IsEvent("tool")
    /\ LET ev == Ev  kind == KindOf(ev.bs)
           tw == IF ev.twgiven = 1 THEN ev.tw ELSE ZeroSeq(ev.bs)
       IN  /\ Chk("meaning of the -k text", ev.key, ParseHex(ev.ktext))
           /\ ev.twgiven = 1 => Chk("meaning of the -c/-t text", ev.tw, ParseHex(ev.twtext))
           /\ Chk("exit status", 0, ev.rc)
           /\ Chk("output file exists", 1, ev.outexists)
           /\ Chk("output",
                  CASE ev.tool = "ctr"   -> CtrOut(kind, ev.key, PadCounter(kind, tw, Len(tw), FALSE), ev.in)
                    [] ev.tool = "ecb"   -> EcbOut(kind, ev.key, ev.dec = 1, ev.in)
                    [] ev.tool = "tweak" -> TweakOut(kind, ev.key, tw, ev.dec = 1, ev.in),
                  ev.out)

(* invalid options: the tool exits non-zero and produces no output *)
TToolBad ==
    /\ IsEvent("tool_bad")
    /\ Chk("exit status is non-zero", TRUE, Ev.rc # 0)
    /\ Chk("no output file", 0, Ev.outexists)

Init == l = 1
Next == TTool \/ TToolBad
Spec == Init /\ [][Next]_vars

TraceAccepted ==
    LET d == TLCGet("stats").diameter
    IN  IF d - 1 = Len(TraceLog) THEN TRUE
        ELSE PrintT(<<"REJECTED: lines consumed", d - 1, "of", Len(TraceLog)>>) /\ FALSE

ASSUME SkinnySelfCheck
=============================================================================
