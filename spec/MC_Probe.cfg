SPECIFICATION Spec
CONSTANTS
  Garbage = {0, 1, 7}
  Shipped = {}
  MaxCalls = 3
INVARIANTS SelectWidest SelectStable NeverExceeds
CHECK_DEADLOCK FALSE
