SPECIFICATION Spec
CONSTANT KS = {1}
CHECK_DEADLOCK FALSE
