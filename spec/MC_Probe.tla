------------------------------ MODULE MC_Probe ------------------------------
(***************************************************************************)
(* Design-level model of back-end selection (C13).                         *)
(*                                                                         *)
(* The CPU is an environment function cpuid[leaf, subleaf] over a family   *)
(* of CPU models: SSE2 or not; AVX2 flag or not; highest basic leaf below  *)
(* 7 or not (then a query of leaf 7 is answered with unrelated data, whose *)
(* bit 5 may be set); YMM state enabled by the operating system or not.    *)
(* The probes are modelled as the code performs them: leaf 1 -> EDX bit    *)
(* 26; leaf 7 -> EBX bit 5, where the sub-leaf register holds `ecx`; then  *)
(* the cascade generic -> 128-bit -> 256-bit of the init functions and the *)
(* parallel_size assignment.  Every init call happens in an arbitrary      *)
(* calling context (ecx value) and under an arbitrary cap.                 *)
(* Shipped: set of flags selecting the probe as the pinned tree had it     *)
(*   "subleaf"  : the sub-leaf register is whatever the calling context    *)
(*                left there, as __cpuid(7, ...) does not set it  (D1)     *)
(*   "nomaxleaf": leaf 7 is queried without asking for the highest leaf (D8)*)
(*   "noos"     : the AVX2 flag is trusted without OSXSAVE / XGETBV   (D9) *)
(* With any flag set TLC must find a violation (negative configs).         *)
(***************************************************************************)
EXTENDS Contract, TLC

CONSTANTS Garbage, Shipped, MaxCalls

VARIABLES cpu,        \* [sse2, avx2 \in 0..1]  -- constant of a behaviour
          built,      \* [b128, b256 \in 0..1]  -- build configuration
          sel,        \* history of selections: set of <<kind, cap, be, psize>>
          calls
vars == <<cpu, built, sel, calls>>

(* avx2: the flag in leaf 7; leaf7: the CPU has leaf 7; top5: bit 5 of what an out-of-range *)
(* leaf answers; os: the operating system has enabled the YMM state                          *)
CPUs == [sse2 : {0, 1}, avx2 : {0, 1}, leaf7 : {0, 1}, top5 : {0, 1}, os : {0, 1}]
Usable256(c) == IF c.leaf7 = 1 /\ c.avx2 = 1 /\ c.os = 1 THEN 1 ELSE 0
Builds == {[b128 |-> 1, b256 |-> 1], [b128 |-> 1, b256 |-> 0], [b128 |-> 0, b256 |-> 0]}

(* CPUID as the hardware answers: an invalid sub-leaf of leaf 7 returns zeros *)
CpuidEDX1(c) == c.sse2
CpuidEBX7(c, subleaf) == IF c.leaf7 = 0 THEN c.top5 ELSE IF subleaf = 0 THEN c.avx2 ELSE 0

HasVec128(c, b, ecx) == IF b.b128 = 1 THEN CpuidEDX1(c) ELSE 0
HasVec256(c, b, ecx) ==
    IF b.b256 = 0 THEN 0
    ELSE IF "nomaxleaf" \notin Shipped /\ c.leaf7 = 0 THEN 0
    ELSE IF CpuidEBX7(c, IF "subleaf" \in Shipped THEN ecx ELSE 0) = 0 THEN 0
    ELSE IF "noos" \in Shipped THEN 1 ELSE c.os

(* the cascade of ..._ctr_init / ..._parallel_ecb_init, with hook H2's cap *)
Select(kind, c, b, cap, ecx) ==
    LET v128 == HasVec128(c, b, ecx) = 1 /\ cap >= 1
        v256 == kind = "s128" /\ HasVec256(c, b, ecx) = 1 /\ cap >= 2
    IN  IF v256 THEN "v256" ELSE IF v128 THEN "v128" ELSE "gen"

PSizeOf(kind, be) == IF kind = "s128" /\ be = "v256" THEN 128 ELSE 64

Init == cpu \in CPUs /\ built \in Builds /\ sel = {} /\ calls = 0
        /\ (cpu.avx2 = 1 => cpu.sse2 = 1 /\ cpu.leaf7 = 1)   \* every AVX2 CPU has SSE2 and leaf 7

DoInit(kind, cap, ecx) ==
    /\ calls < MaxCalls
    /\ LET be == Select(kind, cpu, built, cap, ecx)
       IN  sel' = sel \cup {<<kind, cap, be, PSizeOf(kind, be)>>}
    /\ calls' = calls + 1 /\ UNCHANGED <<cpu, built>>

Next == \E kind \in Kinds, cap \in 0..2, ecx \in Garbage : DoInit(kind, cap, ecx)
Spec == Init /\ [][Next]_vars

Env == [sse2 |-> cpu.sse2, avx2 |-> Usable256(cpu), built128 |-> built.b128, built256 |-> built.b256]

(* the widest back end that is compiled in, supported by the CPU and allowed by the cap *)
SelectWidest == \A s \in sel : s[3] = Widest(Env, s[1], s[2]) /\ s[4] = ParSize(s[1], s[3])
(* the same answer every time within a process *)
SelectStable == \A s, t \in sel : s[1] = t[1] /\ s[2] = t[2] => s[3] = t[3]
(* never a back end whose instructions the CPU cannot execute *)
NeverExceeds == \A s \in sel : /\ s[3] = "v256" => Usable256(cpu) = 1
                               /\ s[3] = "v128" => cpu.sse2 = 1
=============================================================================
