------------------------------- MODULE MC_Mode -------------------------------
(***************************************************************************)
(* Design-level model of the Mantis mode machine (C03).                    *)
(* Symbolic algebra: k0 is the symbol "k0", its rotation "k0r"; k1 is a    *)
(* pair <<"k1", a>> where a \in BOOLEAN says whether alpha is xored in.    *)
(* The implementation-shaped Swap does what the code does (swap k0/k0',    *)
(* toggle alpha on k1, leave the tweak); the invariant says the object     *)
(* always equals MKsSym(key, current mode) with the last tweak: so         *)
(* swap.swap = id and swap = rekey-in-other-mode + same tweak.             *)
(***************************************************************************)
EXTENDS Naturals, TLC

CONSTANTS Keys, Tweaks, MaxCalls, Variant

VARIABLES obj,            \* implementation: [k0, k0p, k1, tw]
          key, mode, last,\* abstract: key, current mode, last tweak
          calls
vars == <<obj, key, mode, last, calls>>

Flip(m) == IF m = "enc" THEN "dec" ELSE "enc"

MKsSym(k, m, t) ==
    IF m = "enc" THEN [k0 |-> <<k, "k0">>, k0p |-> <<k, "k0r">>, k1 |-> <<k, FALSE>>, tw |-> t]
    ELSE              [k0 |-> <<k, "k0r">>, k0p |-> <<k, "k0">>, k1 |-> <<k, TRUE>>,  tw |-> t]

Budget == MaxCalls = 0 \/ calls < MaxCalls
Tick == IF MaxCalls = 0 THEN 0 ELSE calls + 1

Init == /\ key = "none" /\ mode = "enc" /\ last = "zero" /\ calls = 0
        /\ obj = [k0 |-> "z", k0p |-> "z", k1 |-> "z", tw |-> "zero"]

SetKey(k, m) ==
    /\ Budget
    /\ obj' = MKsSym(k, m, "zero")           \* keying resets the tweak to zero
    /\ key' = k /\ mode' = m /\ last' = "zero" /\ calls' = Tick

SetTweak(t) ==
    /\ Budget /\ key # "none"
    /\ obj' = [obj EXCEPT !.tw = t]
    /\ last' = t /\ calls' = Tick /\ UNCHANGED <<key, mode>>

Swap ==
    /\ Budget /\ key # "none"
    /\ obj' = [k0 |-> obj.k0p, k0p |-> obj.k0,
               k1 |-> IF Variant = "noalpha" THEN obj.k1 ELSE <<obj.k1[1], ~obj.k1[2]>>,
               tw |-> IF Variant = "losetweak" THEN "zero" ELSE obj.tw]
    /\ mode' = Flip(mode) /\ calls' = Tick /\ UNCHANGED <<key, last>>

Next ==
    \/ \E k \in Keys, m \in {"enc", "dec"} : SetKey(k, m)
    \/ \E t \in Tweaks : SetTweak(t)
    \/ Swap

Spec == Init /\ [][Next]_vars

ModeAlgebra == key # "none" => obj = MKsSym(key, mode, last)
=============================================================================
