SPECIFICATION Spec
CONSTANTS
  Threads = {1, 2, 3}
  NCalls = 2
  Variant = "ok"
INVARIANTS RaceFree SeqEquivalent
CHECK_DEADLOCK FALSE
