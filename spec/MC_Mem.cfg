SPECIFICATION Spec
CONSTANTS
  N = 12
  BSZ = 3
  Variant = "loadall"
  MaxBlocks = 3
INVARIANT BufferContract
CHECK_DEADLOCK FALSE
