------------------------------- MODULE MC_Life -------------------------------
(***************************************************************************)
(* Design-level model of the object life cycle of CTR and parallel-ECB     *)
(* objects (C14, C15, C16, C17).                                           *)
(*                                                                         *)
(* Implementation-shaped: a caller-owned handle with the two pointer       *)
(* fields the code keeps (vtable, ctx), a heap of blocks with a `dirty`    *)
(* flag (key-dependent bytes present), and the public functions as the     *)
(* code performs them: init (choose vtable, allocate -- the allocation may *)
(* fail), use (dispatch through vtable / ctx tests), cleanup (wipe, free,  *)
(* clear fields).  Dereferencing a junk or freed pointer sets `crashed`.   *)
(* The caller obeys the contract: a handle holding arbitrary garbage       *)
(* ("raw") is only ever passed to init; a live object is not re-inited.    *)
(*                                                                         *)
(* Abstract side: Contract!Lives.  Invariants = the listed properties.     *)
(* Shipped = TRUE selects the init functions of the pinned tree (handle    *)
(* fields not cleared before/after a failed allocation, defect D6): TLC    *)
(* must then reach a crash.                                                *)
(***************************************************************************)
EXTENDS Contract, TLC

CONSTANTS Objs, MaxBlocks, MaxCalls, Shipped

(* odd object ids are CTR objects, even ones parallel-ECB objects *)
ObjKind == [o \in Objs |-> IF o % 2 = 1 THEN "ctr" ELSE "par"]

VARIABLES h,         \* [Objs -> [vt, ctx]]  vt in {"null","set","junk"}; ctx: 0 = NULL, -1 = junk, 1..MaxBlocks = block
          life,      \* [Objs -> Lives]      abstract
          heap,      \* [1..MaxBlocks -> {"free","live","freed"}]
          dirty,     \* [1..MaxBlocks -> BOOLEAN]
          freedDirty,\* TRUE once a dirty block was released
          badFree, crashed, lastRet, lastLive, calls
vars == <<h, life, heap, dirty, freedDirty, badFree, crashed, lastRet, lastLive, calls>>

Blocks == 1..MaxBlocks
FreeBlocks == {b \in Blocks : heap[b] = "free"}

Init ==
    /\ h = [o \in Objs |-> [vt |-> "null", ctx |-> 0]]
    /\ life = [o \in Objs |-> "zeroed"]
    /\ heap = [b \in Blocks |-> "free"] /\ dirty = [b \in Blocks |-> FALSE]
    /\ freedDirty = FALSE /\ badFree = FALSE /\ crashed = FALSE
    /\ lastRet = 1 /\ lastLive = TRUE /\ calls = 0

Step == calls < MaxCalls /\ ~crashed /\ calls' = calls + 1

(* the caller overwrites a non-live handle: with zeros, or with garbage *)
CallerZero(o) ==
    /\ Step /\ life[o] # "live"
    /\ h' = [h EXCEPT ![o] = [vt |-> "null", ctx |-> 0]]
    /\ life' = [life EXCEPT ![o] = "zeroed"]
    /\ UNCHANGED <<heap, dirty, freedDirty, badFree, crashed, lastRet, lastLive>>

CallerJunk(o) ==
    /\ Step /\ life[o] # "live"
    /\ h' = [h EXCEPT ![o] = [vt |-> "junk", ctx |-> -1]]
    /\ life' = [life EXCEPT ![o] = "raw"]
    /\ UNCHANGED <<heap, dirty, freedDirty, badFree, crashed, lastRet, lastLive>>

DoInit(o, fail) ==
    /\ Step /\ MayInit(life[o])
    /\ (~fail) => FreeBlocks # {}
    /\ IF fail
       THEN /\ h' = [h EXCEPT ![o] =
                       IF Shipped
                       THEN (IF ObjKind[o] = "ctr" THEN [vt |-> "set", ctx |-> h[o].ctx] ELSE h[o])
                       ELSE [vt |-> "null", ctx |-> 0]]
            /\ life' = [life EXCEPT ![o] = "failed"]
            /\ lastRet' = 0 /\ lastLive' = FALSE
            /\ UNCHANGED <<heap, dirty>>
       ELSE LET b == CHOOSE x \in FreeBlocks : TRUE
            IN  /\ h' = [h EXCEPT ![o] = [vt |-> "set", ctx |-> b]]
                /\ heap' = [heap EXCEPT ![b] = "live"]
                /\ dirty' = [dirty EXCEPT ![b] = FALSE]          \* calloc
                /\ life' = [life EXCEPT ![o] = "live"]
                /\ lastRet' = 1 /\ lastLive' = TRUE
    /\ UNCHANGED <<freedDirty, badFree, crashed>>

(* is the handle dispatched to the back end / context? *)
Reaches(o) == IF ObjKind[o] = "ctr" THEN h[o].vt # "null" ELSE h[o].ctx # 0

(* any other public call with valid arguments (set_key, encrypt, ...) *)
DoUse(o) ==
    /\ Step /\ life[o] # "raw"
    /\ lastLive' = (life[o] = "live")
    /\ IF ~Reaches(o) \/ h[o].ctx = 0
       THEN /\ lastRet' = 0
            /\ crashed' = (ObjKind[o] = "ctr" /\ h[o].vt = "junk")
            /\ UNCHANGED <<dirty>>
       ELSE IF h[o].vt = "junk" \/ h[o].ctx = -1 \/ heap[h[o].ctx] # "live"
            THEN crashed' = TRUE /\ lastRet' = 0 /\ UNCHANGED dirty
            ELSE /\ dirty' = [dirty EXCEPT ![h[o].ctx] = TRUE]
                 /\ lastRet' = 1 /\ crashed' = FALSE
    /\ UNCHANGED <<h, life, heap, freedDirty, badFree>>

DoCleanup(o) ==
    /\ Step /\ life[o] # "raw"
    /\ lastRet' = lastRet /\ lastLive' = lastLive
    /\ IF ~Reaches(o)
       THEN UNCHANGED <<h, heap, dirty, freedDirty, badFree, crashed>>
       ELSE IF h[o].vt = "junk" /\ ObjKind[o] = "ctr"
       THEN crashed' = TRUE /\ UNCHANGED <<h, heap, dirty, freedDirty, badFree>>
       ELSE IF h[o].ctx = 0
       THEN /\ h' = [h EXCEPT ![o].vt = "null"]
            /\ UNCHANGED <<heap, dirty, freedDirty, badFree, crashed>>
       ELSE IF h[o].ctx = -1
       THEN crashed' = TRUE /\ UNCHANGED <<h, heap, dirty, freedDirty, badFree>>
       ELSE LET b == h[o].ctx
            IN  /\ badFree' = (badFree \/ heap[b] # "live")
                /\ dirty' = [dirty EXCEPT ![b] = FALSE]          \* skinny_cleanse of the whole context
                /\ freedDirty' = freedDirty                      \* wiped before release
                /\ heap' = [heap EXCEPT ![b] = "freed"]
                /\ h' = [h EXCEPT ![o] = [vt |-> "null", ctx |-> 0]]
                /\ crashed' = FALSE
    /\ life' = [life EXCEPT ![o] = IF @ = "live" THEN "dead" ELSE @]

Next ==
    \E o \in Objs :
        \/ CallerZero(o) \/ CallerJunk(o)
        \/ DoInit(o, TRUE) \/ DoInit(o, FALSE)
        \/ DoUse(o) \/ DoCleanup(o)

Spec == Init /\ [][Next]_vars

----------------------------------------------------------------------------
NoCrash == ~crashed
(* C15: the heap blocks the library owns are exactly those of live objects *)
NoLeak == {b \in Blocks : heap[b] = "live"} = {h[o].ctx : o \in {x \in Objs : life[x] = "live"}}
FreeOnce == ~badFree
(* C17 *)
WipedAtFree == ~freedDirty /\ \A b \in Blocks : heap[b] = "freed" => ~dirty[b]
(* C14/C15/C16: a call succeeds iff the object is live *)
RetContract == (lastRet = 1) = lastLive
(* C16: a failed init leaves the object exactly like a cleaned-up one *)
FailedIsInert == \A o \in Objs : life[o] \in {"failed", "dead", "zeroed"} => ~Reaches(o) \/ h[o].ctx = 0
=============================================================================
