------------------------------- MODULE MC_Mem -------------------------------
(***************************************************************************)
(* Design-level model of the buffer contract (C09).                        *)
(* Memory is a flat byte arena.  A single-block call with input window at  *)
(* `a` and output window at `b` (any overlap) must                         *)
(*   - read only the input window, of the PRE-state,                       *)
(*   - write exactly the output window with F(input),                      *)
(*   - leave every other byte unchanged (frame condition).                 *)
(* The implementation-shaped variants:                                     *)
(*   "loadall"  load the whole input block, compute, store (what the code  *)
(*              does: READ_WORDnn of all rows before the first WRITE)      *)
(*   "stream"   store output byte i before input byte i+1 is read -- the   *)
(*              deliberately wrong variant; must fail for overlaps         *)
(* Bulk calls (CTR / parallel) process block after block and are specified *)
(* for exact aliasing (b = a) or disjoint buffers only.                    *)
(* F is symbolic and position-wise injective: F(x)[i] = <<"f", i, x>> for  *)
(* the block function (depends on the whole block x) .                     *)
(***************************************************************************)
EXTENDS Naturals, Sequences, TLC

CONSTANTS N, BSZ, Variant, MaxBlocks

VARIABLES mem, done, a, b, nb, premem
vars == <<mem, done, a, b, nb, premem>>

Addr == 0..(N - 1)
InitMem == [x \in Addr |-> <<"m", x>>]          \* every byte distinct

Block(m, at) == [i \in 1..BSZ |-> m[at + i - 1]]
F(x, i) == <<"f", i, x>>

(* contract: result of a single-block call *)
AbsSingle(m, ia, ob) ==
    [x \in Addr |-> IF x >= ob /\ x < ob + BSZ THEN F(Block(m, ia), x - ob + 1) ELSE m[x]]

(* implementation variants *)
ImplSingle(m, ia, ob) ==
    IF Variant = "loadall" THEN AbsSingle(m, ia, ob)
    ELSE \* "stream": the value of input byte i is read when output byte i is produced;
         \* output byte i depends on the input bytes as they are in memory at that time
         LET RECURSIVE Go(_, _)
             Go(cur, i) == IF i > BSZ THEN cur
                           ELSE Go([cur EXCEPT ![ob + i - 1] = F(Block(cur, ia), i)], i + 1)
         IN  Go(m, 1)

(* bulk call over k blocks, block after block *)
RECURSIVE ImplBulk(_, _, _, _)
ImplBulk(m, ia, ob, k) ==
    IF k = 0 THEN m ELSE ImplBulk(ImplSingle(m, ia, ob), ia + BSZ, ob + BSZ, k - 1)

AbsBulk(m, ia, ob, k) ==
    [x \in Addr |-> IF x >= ob /\ x < ob + k * BSZ
                    THEN F(Block(m, ia + ((x - ob) \div BSZ) * BSZ), ((x - ob) % BSZ) + 1)
                    ELSE m[x]]

Init == /\ mem = InitMem /\ premem = InitMem /\ done = FALSE
        /\ a \in 0..(N - BSZ) /\ b \in 0..(N - BSZ) /\ nb \in 0..MaxBlocks

Single ==
    /\ ~done /\ nb = 1
    /\ mem' = ImplSingle(mem, a, b) /\ done' = TRUE
    /\ UNCHANGED <<a, b, nb, premem>>

Bulk ==
    /\ ~done /\ nb # 1
    /\ a + nb * BSZ <= N /\ b + nb * BSZ <= N
    /\ (b = a \/ b >= a + nb * BSZ \/ a >= b + nb * BSZ)      \* documented: same buffer or disjoint
    /\ mem' = ImplBulk(mem, a, b, nb) /\ done' = TRUE
    /\ UNCHANGED <<a, b, nb, premem>>

Next == Single \/ Bulk
Spec == Init /\ [][Next]_vars

BufferContract ==
    done => IF nb = 1 THEN mem = AbsSingle(premem, a, b) ELSE mem = AbsBulk(premem, a, b, nb)
=============================================================================
