SPECIFICATION Spec
CONSTANTS
  ROWS = 4
  WB = 4
  MaxExtra = 16
  Shipped = FALSE
INVARIANT KeyLenLaw
CHECK_DEADLOCK FALSE
