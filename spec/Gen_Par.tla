------------------------------ MODULE Gen_Par ------------------------------
(***************************************************************************)
(* Abstract machine of ONE parallel-ECB object for scenario generation     *)
(* (spec -> impl): life-cycle phase x keyed, one action per public         *)
(* function and argument class.  See Gen_Ctr for how the graph is used.    *)
(***************************************************************************)
EXTENDS Naturals, TLC

CONSTANT KS          \* key-size classes (in blocks) to distinguish; 0 = not keyed

(* hist: "fresh" (no full group processed under the key in force) | "used" (at least one   *)
(* full group was) | "rekeyed" (keyed again AFTER a full group had been processed: whatever *)
(* an implementation derives lazily from the key and caches must not survive this)          *)
VARIABLES life, keyed, hist
vars == <<life, keyed, hist>>

Init == life = "zeroed" /\ keyed = 0 /\ hist = "fresh"
Live == life = "live"

DoInit(fail) ==
    /\ life # "live"
    /\ life' = (IF fail THEN "failed" ELSE "live")
    /\ keyed' = 0 /\ hist' = "fresh"

DoCleanup ==
    /\ life' = (IF Live THEN "dead" ELSE life)
    /\ keyed' = (IF Live THEN 0 ELSE keyed)
    /\ hist' = (IF Live THEN "fresh" ELSE hist)

(* cls: valid (z = size class) | null | short | long | badrounds (z = 0) *)
DoSetKey(cls, z) ==
    /\ keyed' = (IF Live /\ cls = "valid" THEN z ELSE keyed)
    /\ hist' = (IF Live /\ cls = "valid" /\ hist # "fresh" THEN "rekeyed" ELSE hist)
    /\ UNCHANGED life

(* Mantis only (ignored for the SKINNY kinds); on a keyed object *)
DoSwap == (Live => keyed # 0) /\ UNCHANGED vars

(* cls: zero | one | below (psize - 1 block) | batch (exactly 8 blocks) | above (2*8+3 blocks) | ragged *)
Group(cls) == cls \in {"batch", "above"}
DoEncrypt(cls) == hist' = (IF Live /\ keyed # 0 /\ Group(cls) THEN "used" ELSE hist) /\ UNCHANGED <<life, keyed>>
DoDecrypt(cls) == hist' = (IF Live /\ keyed # 0 /\ Group(cls) THEN "used" ELSE hist) /\ UNCHANGED <<life, keyed>>

Next ==
    \/ \E f \in BOOLEAN : DoInit(f)
    \/ DoCleanup
    \/ \E z \in KS : DoSetKey("valid", z)
    \/ \E c \in {"null", "short", "long", "badrounds"} : DoSetKey(c, 0)
    \/ DoSwap
    \/ \E c \in {"zero", "one", "below", "batch", "above", "ragged"} : DoEncrypt(c)
    \/ \E c \in {"zero", "one", "below", "batch", "above", "ragged"} : DoDecrypt(c)

Spec == Init /\ [][Next]_vars
=============================================================================
