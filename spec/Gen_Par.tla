------------------------------ MODULE Gen_Par ------------------------------
(***************************************************************************)
(* Abstract machine of ONE parallel-ECB object for scenario generation     *)
(* (spec -> impl): life-cycle phase x keyed, one action per public         *)
(* function and argument class.  See Gen_Ctr for how the graph is used.    *)
(***************************************************************************)
EXTENDS Naturals, TLC

VARIABLES life, keyed
vars == <<life, keyed>>

Init == life = "zeroed" /\ keyed = FALSE
Live == life = "live"

DoInit(fail) ==
    /\ life # "live"
    /\ life' = (IF fail THEN "failed" ELSE "live")
    /\ keyed' = FALSE

DoCleanup ==
    /\ life' = IF Live THEN "dead" ELSE life
    /\ keyed' = IF Live THEN FALSE ELSE keyed

(* cls: valid | null | short | long | badrounds *)
DoSetKey(cls) ==
    /\ keyed' = IF Live /\ cls = "valid" THEN TRUE ELSE keyed
    /\ UNCHANGED life

(* Mantis only (ignored for the SKINNY kinds); on a keyed object *)
DoSwap == (Live => keyed) /\ UNCHANGED vars

(* cls: zero | one | below (psize - 1 block) | batch (exactly 8 blocks) | above (2*8+3 blocks) | ragged *)
DoEncrypt(cls) == UNCHANGED vars
DoDecrypt(cls) == UNCHANGED vars

Next ==
    \/ \E f \in BOOLEAN : DoInit(f)
    \/ DoCleanup
    \/ \E c \in {"valid", "null", "short", "long", "badrounds"} : DoSetKey(c)
    \/ DoSwap
    \/ \E c \in {"zero", "one", "below", "batch", "above", "ragged"} : DoEncrypt(c)
    \/ \E c \in {"zero", "one", "below", "batch", "above", "ragged"} : DoDecrypt(c)

Spec == Init /\ [][Next]_vars
=============================================================================
