------------------------------ MODULE Gen_Par ------------------------------
(***************************************************************************)
(* Abstract machine of ONE parallel-ECB object for scenario generation     *)
(* (spec -> impl): life-cycle phase x keyed, one action per public         *)
(* function and argument class.  See Gen_Ctr for how the graph is used.    *)
(***************************************************************************)
EXTENDS Naturals, TLC

CONSTANT KS          \* key-size classes (in blocks) to distinguish; 0 = not keyed

VARIABLES life, keyed
vars == <<life, keyed>>

Init == life = "zeroed" /\ keyed = 0
Live == life = "live"

DoInit(fail) ==
    /\ life # "live"
    /\ life' = (IF fail THEN "failed" ELSE "live")
    /\ keyed' = 0

DoCleanup ==
    /\ life' = (IF Live THEN "dead" ELSE life)
    /\ keyed' = (IF Live THEN 0 ELSE keyed)

(* cls: valid (z = size class) | null | short | long | badrounds (z = 0) *)
DoSetKey(cls, z) ==
    /\ keyed' = (IF Live /\ cls = "valid" THEN z ELSE keyed)
    /\ UNCHANGED life

(* Mantis only (ignored for the SKINNY kinds); on a keyed object *)
DoSwap == (Live => keyed # 0) /\ UNCHANGED vars

(* cls: zero | one | below (psize - 1 block) | batch (exactly 8 blocks) | above (2*8+3 blocks) | ragged *)
DoEncrypt(cls) == UNCHANGED vars
DoDecrypt(cls) == UNCHANGED vars

Next ==
    \/ \E f \in BOOLEAN : DoInit(f)
    \/ DoCleanup
    \/ \E z \in KS : DoSetKey("valid", z)
    \/ \E c \in {"null", "short", "long", "badrounds"} : DoSetKey(c, 0)
    \/ DoSwap
    \/ \E c \in {"zero", "one", "below", "batch", "above", "ragged"} : DoEncrypt(c)
    \/ \E c \in {"zero", "one", "below", "batch", "above", "ragged"} : DoDecrypt(c)

Spec == Init /\ [][Next]_vars
=============================================================================
