SPECIFICATION Spec
CONSTANTS
  BSZ = 2
  PSizes = {4, 8}
  MaxBytes = 51
  Variant = "noremainder"
INVARIANT MapLaw
CHECK_DEADLOCK FALSE
