----------------------------- MODULE MantisSpec -----------------------------
(***************************************************************************)
(* Reference definition of MANTIS-r (r = 5..8; r = 0..8 is accepted so     *)
(* that reduced-round conformance runs have an oracle), transcribed from   *)
(* the specification paper (ePrint 2016/660, section 6): 64-bit block of   *)
(* 16 nibble cells (cell 2i = high nibble of byte i), 128-bit key k0||k1,  *)
(* 64-bit tweak.                                                           *)
(*                                                                         *)
(*   whitening k0, AddTweakey(k1+T); r forward rounds                      *)
(*       R_i = MixColumns o PermuteCells o AddTweakey(h^i(T)+k1)           *)
(*             o AddConstant(RC_i) o SubCells;                             *)
(*   middle  SubCells o MixColumns o SubCells;                             *)
(*   r backward rounds with k1+alpha; final AddTweakey(k1+alpha+T), k0'.   *)
(***************************************************************************)
EXTENDS SkinnySpec

Sb0 == <<12, 10, 13, 3, 14, 11, 15, 7, 8, 9, 1, 5, 0, 2, 4, 6>>

MP    == <<0, 11, 6, 13, 10, 1, 12, 7, 5, 14, 3, 8, 15, 4, 9, 2>>
MPinv == <<0, 5, 15, 10, 13, 8, 2, 7, 11, 14, 4, 1, 6, 3, 9, 12>>
MH    == <<6, 5, 14, 15, 0, 1, 2, 3, 7, 12, 13, 4, 8, 9, 10, 11>>
MHinv == <<4, 5, 6, 7, 11, 1, 0, 8, 12, 13, 14, 15, 9, 10, 2, 3>>

(* Involutive almost-MDS matrix circ(0,1,1,1) applied to each column *)
MMix(s) == << X3(s[5], s[9], s[13]),  X3(s[6], s[10], s[14]),
              X3(s[7], s[11], s[15]), X3(s[8], s[12], s[16]),
              X3(s[1], s[9], s[13]),  X3(s[2], s[10], s[14]),
              X3(s[3], s[11], s[15]), X3(s[4], s[12], s[16]),
              X3(s[1], s[5], s[13]),  X3(s[2], s[6], s[14]),
              X3(s[3], s[7], s[15]),  X3(s[4], s[8], s[16]),
              X3(s[1], s[5], s[9]),   X3(s[2], s[6], s[10]),
              X3(s[3], s[7], s[11]),  X3(s[4], s[8], s[12]) >>

(* Round constants (digits of pi), as cells *)
MRC == << <<1,3,1,9,8,10,2,14,0,3,7,0,7,3,4,4>>,
          <<10,4,0,9,3,8,2,2,2,9,9,15,3,1,13,0>>,
          <<0,8,2,14,15,10,9,8,14,12,4,14,6,12,8,9>>,
          <<4,5,2,8,2,1,14,6,3,8,13,0,1,3,7,7>>,
          <<11,14,5,4,6,6,12,15,3,4,14,9,0,12,6,12>>,
          <<12,0,10,12,2,9,11,7,12,9,7,12,5,0,13,13>>,
          <<3,15,8,4,13,5,11,5,11,5,4,7,0,9,1,7>>,
          <<9,2,1,6,13,5,13,9,8,9,7,9,15,11,1,11>> >>
MAlpha == <<2,4,3,15,6,10,8,8,8,5,10,3,0,8,13,3>>
MAlphaBytes == BytesOf(4, MAlpha)

(* k0' = (k0 >>> 1) + (k0 >> 63), on the 64-bit big-endian value of k0 *)
MK0Prime(k0) ==
    LET rot == << (k0[8] % 2) * 128 + k0[1] \div 2,
                  (k0[1] % 2) * 128 + k0[2] \div 2,
                  (k0[2] % 2) * 128 + k0[3] \div 2,
                  (k0[3] % 2) * 128 + k0[4] \div 2,
                  (k0[4] % 2) * 128 + k0[5] \div 2,
                  (k0[5] % 2) * 128 + k0[6] \div 2,
                  (k0[6] % 2) * 128 + k0[7] \div 2,
                  (k0[7] % 2) * 128 + k0[8] \div 2 >>
    IN  << rot[1], rot[2], rot[3], rot[4], rot[5], rot[6], rot[7],
           rot[8] ^^ (k0[1] \div 128) >>

(* The "schedule" view: what a keyed object denotes.  mode "enc" | "dec".   *)
(* Decryption is encryption with k0 and k0' swapped and k1 + alpha.         *)
MKs(key, mode) ==
    LET k0 == SubSeq(key, 1, 8)
        k1 == SubSeq(key, 9, 16)
    IN  IF mode = "enc"
        THEN [k0 |-> k0, k0p |-> MK0Prime(k0), k1 |-> k1]
        ELSE [k0 |-> MK0Prime(k0), k0p |-> k0, k1 |-> XorSeq(k1, MAlphaBytes)]

(* Core: processing with an explicit schedule <<k0,k0p,k1>> (bytes), tweak  *)
(* (bytes) and r rounds.                                                    *)
MCore(ks, tw, r, blk) ==
    LET k0   == CellsOf(4, ks.k0)
        k0p  == CellsOf(4, ks.k0p)
        k1   == CellsOf(4, ks.k1)
        k1a  == Xor16(k1, MAlpha)
        t0   == CellsOf(4, tw)
        s0   == Xor16(Xor16(Xor16(CellsOf(4, blk), k0), k1), t0)
        fwd(acc, i) ==
            LET t == Perm16(acc[2], MH)
            IN  << MMix(Perm16(Xor16(Xor16(Xor16(Tab16(acc[1], Sb0), MRC[i]), t), k1), MP)), t >>
        f    == FoldLeft(fwd, <<s0, t0>>, [i \in 1..r |-> i])
        mid  == Tab16(MMix(Tab16(f[1], Sb0)), Sb0)
        bwd(acc, j) ==
            LET i == r + 1 - j
            IN  << Tab16(Xor16(Xor16(Xor16(Perm16(MMix(acc[1]), MPinv), acc[2]), k1a), MRC[i]), Sb0),
                   Perm16(acc[2], MHinv) >>
        b    == FoldLeft(bwd, <<mid, f[2]>>, [j \in 1..r |-> j])
    IN  BytesOf(4, Xor16(Xor16(Xor16(b[1], k0p), k1a), b[2]))

MantisEnc(r, key, tw, blk) == MCore(MKs(key, "enc"), tw, r, blk)
MantisDec(r, key, tw, blk) == MCore(MKs(key, "dec"), tw, r, blk)

----------------------------------------------------------------------------
MKey == <<146, 240, 153, 82, 198, 37, 227, 233, 215, 160, 96, 247, 20, 192, 41, 43>>
MTw  == <<186, 145, 46, 111, 16, 85, 254, 210>>
MV5 == [pt |-> <<59, 92, 119, 164, 146, 31, 151, 24>>,   ct |-> <<214, 82, 32, 53, 193, 192, 198, 193>>]
MV6 == [pt |-> <<214, 82, 32, 53, 193, 192, 198, 193>>,  ct |-> <<96, 228, 52, 87, 49, 25, 54, 253>>]
MV7 == [pt |-> <<96, 228, 52, 87, 49, 25, 54, 253>>,     ct |-> <<48, 142, 138, 7, 241, 104, 245, 23>>]
MV8 == [pt |-> <<48, 142, 138, 7, 241, 104, 245, 23>>,   ct |-> <<151, 30, 160, 26, 134, 180, 16, 187>>]

MVecOK(r, v) == /\ MantisEnc(r, MKey, MTw, v.pt) = v.ct
                /\ MantisDec(r, MKey, MTw, v.ct) = v.pt

MantisSelfCheck ==
    /\ \A i \in 1..16 : Sb0[Sb0[i]+1] = i - 1
    /\ \A i \in 1..16 : MPinv[MP[i]+1] = i - 1
    /\ \A i \in 1..16 : MHinv[MH[i]+1] = i - 1
    /\ MVecOK(5, MV5) /\ MVecOK(6, MV6) /\ MVecOK(7, MV7) /\ MVecOK(8, MV8)
    /\ MMix(MMix(MAlpha)) = MAlpha

=============================================================================
