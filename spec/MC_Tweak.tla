------------------------------ MODULE MC_Tweak ------------------------------
(***************************************************************************)
(* Design-level model of the tweakable key schedule (C04).                 *)
(* The schedule is linear in the tweak, so it is modelled in a symbolic    *)
(* xor algebra: a schedule is <<key, t>> where t is the vector of TK1      *)
(* contributions currently folded in (one small value per tweak byte, xor  *)
(* = bitwise xor).  The implementation-shaped SetTweak does what the code  *)
(* does -- xor the REMEMBERED tweak out, xor the new one in, remember the   *)
(* new one -- and the invariant says the result always equals the schedule *)
(* computed afresh from the key and the latest tweak (history              *)
(* independence), for all keys and tweaks of the bounded universe and all  *)
(* call sequences up to MaxCalls.                                          *)
(* Variant selects deliberately wrong update rules (negative configs).     *)
(***************************************************************************)
EXTENDS Contract, Bitwise, TLC

CONSTANTS N, Vals, Keys, MaxCalls, Variant

VARIABLES key, tw, sched, last, calls
vars == <<key, tw, sched, last, calls>>

ZeroT == [i \in 1..N |-> 0]
TVecs == [1..N -> Vals]

Fresh(k, t) == <<k, t>>
XorT(a, b) == [i \in 1..N |-> a[i] ^^ b[i]]

(* short tweak = same bytes followed by zeros *)
Extend(t, len) == [i \in 1..N |-> IF i <= len THEN t[i] ELSE 0]
(* wrong: keeps the old tail *)
ExtendOld(t, len, old) == [i \in 1..N |-> IF i <= len THEN t[i] ELSE old[i]]

ValidLen(len) == len >= 1 /\ len <= N

Budget == MaxCalls = 0 \/ calls < MaxCalls
Tick == IF MaxCalls = 0 THEN 0 ELSE calls + 1

Init == key = "none" /\ tw = ZeroT /\ sched = <<"none", ZeroT>> /\ last = ZeroT /\ calls = 0

SetTweakedKey(k) ==
    /\ Budget
    /\ key' = k /\ tw' = ZeroT /\ sched' = Fresh(k, ZeroT) /\ last' = ZeroT
    /\ calls' = Tick

ImplSetTweak(new) ==
    LET prev == tw
        stored == IF Variant = "stale" THEN tw ELSE new
        t2 == IF Variant = "xornew" THEN XorT(XorT(sched[2], new), new)
              ELSE XorT(XorT(sched[2], prev), new)
    IN  /\ tw' = stored
        /\ sched' = <<sched[1], t2>>

SetTweak(t, len) ==
    /\ Budget /\ key # "none"
    /\ ValidLen(len)
    /\ LET new == IF Variant = "noext" THEN ExtendOld(t, len, tw) ELSE Extend(t, len)
       IN  ImplSetTweak(new) /\ last' = Extend(t, len)
    /\ calls' = Tick /\ UNCHANGED key

SetTweakNull(len) ==
    /\ Budget /\ key # "none" /\ ValidLen(len)
    /\ ImplSetTweak(ZeroT) /\ last' = ZeroT
    /\ calls' = Tick /\ UNCHANGED key

SetTweakBad(len) ==
    /\ Budget /\ ~ValidLen(len)
    /\ calls' = Tick /\ UNCHANGED <<key, tw, sched, last>>

(* a refused re-key (bad length: 0 = too short, 1 = too long, 2 = null key) leaves the object  *)
(* exactly as it was, in particular the remembered tweak that the next SetTweak xors out       *)
SetTweakedKeyBad(why) ==
    /\ Budget
    /\ tw' = IF Variant = "badkeyclears" THEN ZeroT ELSE tw
    /\ calls' = Tick /\ UNCHANGED <<key, sched, last>>

Next ==
    \/ \E k \in Keys : SetTweakedKey(k)
    \/ \E why \in 0..2 : SetTweakedKeyBad(why)
    \/ \E t \in TVecs, len \in 1..N : SetTweak(t, len)
    \/ \E len \in 1..N : SetTweakNull(len)
    \/ \E len \in {0, N + 1} : SetTweakBad(len)

Spec == Init /\ [][Next]_vars

HistoryIndependence == key # "none" => sched = Fresh(key, last)
RememberedIsLast    == key # "none" => tw = last
=============================================================================
