SPECIFICATION Spec
CONSTANTS
  CHUNK = 8
  BSZ = 4
  MaxLen = 27
INVARIANTS ClassifierLaw ChunkLaw
CHECK_DEADLOCK FALSE
