SPECIFICATION Spec
CONSTANTS
  Keys = {"ka", "kb"}
  Tweaks = {"zero", "t1", "t2", "t3"}
  MaxCalls = 12
  Variant = "ok"
INVARIANT ModeAlgebra
CHECK_DEADLOCK FALSE
