SPECIFICATION Spec
CONSTANTS
  BSZ = 2
  RADIX = 3
  MaxCalls = 4
  MaxReq = 7
INVARIANT Deterministic
CHECK_DEADLOCK FALSE
