------------------------------ MODULE FootTrace ------------------------------
(***************************************************************************)
(* Constant-time contract (C08): the FOOTPRINT of a public call -- the     *)
(* complete sequence of instruction addresses executed and of load/store   *)
(* addresses and sizes, recorded from the shipped binary under             *)
(* valgrind/lackey and cut at marker functions -- is a FUNCTION of the     *)
(* call's PUBLIC parameters (operation, object kind, back end, lengths,    *)
(* round count, mode, position in the public call history), never of key,  *)
(* tweak, data, counter or keystream bytes.                                *)
(*                                                                         *)
(* The trace holds one event per <run, call>: runs execute the same public *)
(* scenario with different secrets.  An event is accepted iff its public   *)
(* key has not been seen or has been seen with the same digest (and the    *)
(* same record count).  `pub` is computed by the driver from the scenario   *)
(* with every secret byte string replaced by its length.                   *)
(***************************************************************************)
EXTENDS Naturals, Sequences, TLC, Json, IOUtils

TraceLog == ndJsonDeserialize(IOEnv.TRACE)

VARIABLES l, seen
vars == <<l, seen>>

Chk(what, expected, actual) ==
    IF expected = actual THEN TRUE
    ELSE PrintT(<<"MISMATCH at line", l, what, "expected", expected, "logged", actual>>) /\ FALSE

Init == l = 1 /\ seen = <<>>        \* seen: sequence of [pub, digest, n] indexed by call number

TFoot ==
    /\ l <= Len(TraceLog) /\ TraceLog[l].e = "foot" /\ l' = l + 1
    /\ LET ev == TraceLog[l]  i == ev.idx + 1
       IN  IF i > Len(seen)
           THEN /\ i = Len(seen) + 1      \* calls of the first run arrive in order
                /\ seen' = Append(seen, [pub |-> ev.pub, digest |-> ev.digest, n |-> ev.n])
           ELSE /\ Chk("public parameters of call " \o ev.pub, seen[i].pub, ev.pub)
                /\ Chk("footprint length of " \o ev.pub, seen[i].n, ev.n)
                /\ Chk("footprint digest of " \o ev.pub, seen[i].digest, ev.digest)
                /\ UNCHANGED seen

Next == TFoot
Spec == Init /\ [][Next]_vars

TraceAccepted ==
    LET d == TLCGet("stats").diameter
    IN  IF d - 1 = Len(TraceLog) THEN TRUE
        ELSE PrintT(<<"REJECTED: lines consumed", d - 1, "of", Len(TraceLog)>>) /\ FALSE
=============================================================================
