SPECIFICATION Spec
CONSTANTS
  N = 65536
INVARIANT Laws
CHECK_DEADLOCK FALSE
