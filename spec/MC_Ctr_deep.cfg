SPECIFICATION Spec
CONSTANTS
  BSZ = 2
  RADIX = 4
  Batches = {1, 2, 4}
  MaxCalls = 5
  MaxReq = 17
  Keys = {"k1", "k2"}
  Shipped = {}
INVARIANTS TypeOK StreamLaw SplitIndependent BackendsAgree PosRefines LanesStaggered
CHECK_DEADLOCK FALSE
