------------------------------- MODULE MC_Ctr -------------------------------
(***************************************************************************)
(* Design-level model of CTR mode (C05, C06).                              *)
(*                                                                         *)
(* Abstract side: the stream-position contract of Contract.tla             *)
(* (PosInit / PosSetCounter / PosRekey / PosAdvance), with a symbolic      *)
(* injective cipher: keystream byte j of E_k(c) is the term <<k, c, j>>.   *)
(*                                                                         *)
(* Implementation side: one implementation-shaped model per batch size B   *)
(* (B = 1: generic back end; B = 4, 8: the SIMD back ends), structured as  *)
(* the C code is: counter lanes staggered +0..+B-1 and advanced by B at    *)
(* every refill, a keystream buffer of B blocks, an offset of the first    *)
(* unused byte (B*bs = exhausted), the three-way copy loop of ..._encrypt. *)
(*                                                                         *)
(* All models are driven in lock-step by the same call sequence; TLC       *)
(* enumerates every sequence of Init / SetCounter / SetKey / Encrypt(n)    *)
(* up to MaxCalls calls over radix-RADIX counters of BSZ digits, so every  *)
(* carry pattern, the wrap-around, every cut position relative to block    *)
(* and batch boundaries and every rekey point is reached.                  *)
(*                                                                         *)
(* Shipped: set of flags selecting the transitions as the pinned tree      *)
(* shipped them -- "nostagger" (lanes not staggered by init, defect D2)    *)
(* and "dropbatch" (key change drops the whole unused batch, defect D3);   *)
(* "narrow" is not a shipped defect but a seeded one (length truncated).   *)
(* With a flag set TLC must find a violation (negative configs).           *)
(***************************************************************************)
EXTENDS Contract, TLC

CONSTANTS BSZ, RADIX, Batches, MaxCalls, MaxReq, Keys, Shipped

VARIABLES apos, akey,      \* abstract position <<c, j>> and key
          impl,            \* [B \in Batches -> [lanes, buf, offset, key]]
          aout, iout,      \* keystream used by the last Encrypt: abstract / per B
          seg,             \* ghost: position and key at the last position-defining call
          cat,             \* ghost: [B -> keystream used by ALL Encrypt calls since then]
          calls
vars == <<apos, akey, impl, aout, iout, seg, cat, calls>>

Counters == [1..BSZ -> 0..(RADIX-1)]
AllCounters == {SubSeq(c, 1, BSZ) : c \in Counters}

KsByte(k, c, j) == <<k, c, j>>
KsBlock(k, c) == [j \in 1..BSZ |-> KsByte(k, c, j - 1)]

----------------------------------------------------------------------------
(* Abstract keystream of a request of n bytes at position pos              *)
AbsStream(k, pos, n) ==
    [i \in 1..n |-> KsByte(k, AddBE(RADIX, pos[1], PosBlockOf(BSZ, pos, i - 1)),
                           PosByteOf(BSZ, pos, i - 1))]

----------------------------------------------------------------------------
(* Implementation-shaped model for batch size B                            *)

Stagger(B, c) == [i \in 1..B |-> AddBE(RADIX, c, i - 1)]

ImplInit(B) ==
    [lanes  |-> IF "nostagger" \in Shipped THEN [i \in 1..B |-> ZeroSeq(BSZ)]
                ELSE Stagger(B, ZeroSeq(BSZ)),
     buf    |-> [i \in 1..(B * BSZ) |-> <<>>],
     offset |-> B * BSZ,
     key    |-> "nokey"]

ImplSetCounter(B, st, c) ==
    [st EXCEPT !.lanes = Stagger(B, c), !.offset = B * BSZ]

(* subtract d (0 <= d < RADIX^BSZ) modulo RADIX^BSZ: add the complement    *)
SubBE(c, d) ==
    LET step(acc, i) ==
            LET idx == Len(c) + 1 - i
                v   == c[idx] - acc[1]
                b   == IF v >= 0 THEN 0 ELSE (RADIX - 1 - v) \div RADIX
            IN  << b, [acc[2] EXCEPT ![idx] = v + b * RADIX] >>
    IN  FoldLeft(step, <<d, c>>, [i \in 1..Len(c) |-> i])[2]

(* key (or tweak) change *)
ImplSetKey(B, st, k) ==
    IF "dropbatch" \in Shipped \/ st.offset >= B * BSZ
    THEN [st EXCEPT !.key = k, !.offset = B * BSZ]
    ELSE \* repaired design: step the lanes back over the untouched blocks
         LET unused == (B * BSZ - st.offset) \div BSZ
         IN  [st EXCEPT !.key = k, !.offset = B * BSZ,
                        !.lanes = [i \in 1..B |-> SubBE(st.lanes[i], unused)]]

Refill(B, st) ==
    [st EXCEPT !.buf = [i \in 1..(B * BSZ) |->
                           KsByte(st.key, st.lanes[((i - 1) \div BSZ) + 1], (i - 1) % BSZ)],
               !.lanes = [i \in 1..B |-> AddBE(RADIX, st.lanes[i], B)]]

(* the copy loop of ..._ctr_..._encrypt, one iteration per loop pass:       *)
(* <<state, remaining, produced>>                                           *)
RECURSIVE ImplLoop(_, _, _, _)
ImplLoop(B, st, size, acc) ==
    IF size = 0 THEN <<st, acc>>
    ELSE IF st.offset >= B * BSZ
    THEN LET r == Refill(B, st)
         IN  IF size >= B * BSZ
             THEN ImplLoop(B, r, size - B * BSZ, acc \o SubSeq(r.buf, 1, B * BSZ))
             ELSE <<[r EXCEPT !.offset = size], acc \o SubSeq(r.buf, 1, size)>>
    ELSE LET avail == B * BSZ - st.offset
             t     == IF avail > size THEN size ELSE avail
         IN  ImplLoop(B, [st EXCEPT !.offset = st.offset + t], size - t,
                      acc \o SubSeq(st.buf, st.offset + 1, st.offset + t))

(* "narrow": the loop counts the bytes left in a variable narrower than the length type (here  *)
(* one that wraps at MaxReq), the analogue of `unsigned left = size` for requests >= 4 GiB        *)
ImplEncrypt(B, st, n) == ImplLoop(B, st, IF "narrow" \in Shipped THEN n % MaxReq ELSE n, <<>>)

(* refinement mapping: the stream position an implementation state denotes *)
ImplPos(B, st) ==
    IF st.offset >= B * BSZ THEN <<st.lanes[1], 0>>
    ELSE LET start == SubBE(st.lanes[1], B)       \* first counter of the batch in the buffer
         IN  <<AddBE(RADIX, start, st.offset \div BSZ), st.offset % BSZ>>

----------------------------------------------------------------------------
Init ==
    /\ apos = PosInit(BSZ) /\ akey = "nokey"
    /\ impl = [B \in Batches |-> ImplInit(B)]
    /\ aout = <<>> /\ iout = [B \in Batches |-> <<>>]
    /\ seg = [pos |-> PosInit(BSZ), key |-> "nokey"] /\ cat = [B \in Batches |-> <<>>]
    /\ calls = 0

DoInit ==
    /\ calls < MaxCalls /\ calls > 0
    /\ apos' = PosInit(BSZ) /\ akey' = "nokey"
    /\ impl' = [B \in Batches |-> ImplInit(B)]
    /\ aout' = <<>> /\ iout' = [B \in Batches |-> <<>>]
    /\ seg' = [pos |-> PosInit(BSZ), key |-> "nokey"] /\ cat' = [B \in Batches |-> <<>>]
    /\ calls' = calls + 1

DoSetCounter(c) ==
    /\ calls < MaxCalls
    /\ apos' = PosSetCounter(c)
    /\ impl' = [B \in Batches |-> ImplSetCounter(B, impl[B], c)]
    /\ aout' = <<>> /\ iout' = [B \in Batches |-> <<>>]
    /\ seg' = [pos |-> PosSetCounter(c), key |-> akey] /\ cat' = [B \in Batches |-> <<>>]
    /\ calls' = calls + 1 /\ UNCHANGED akey

DoSetKey(k) ==
    /\ calls < MaxCalls
    /\ akey' = k /\ apos' = PosRekey(RADIX, apos)
    /\ impl' = [B \in Batches |-> ImplSetKey(B, impl[B], k)]
    /\ aout' = <<>> /\ iout' = [B \in Batches |-> <<>>]
    /\ seg' = [pos |-> PosRekey(RADIX, apos), key |-> k] /\ cat' = [B \in Batches |-> <<>>]
    /\ calls' = calls + 1

DoEncrypt(n) ==
    /\ calls < MaxCalls /\ akey # "nokey"
    /\ aout' = AbsStream(akey, apos, n)
    /\ apos' = PosAdvance(RADIX, BSZ, apos, n)
    /\ LET r == [B \in Batches |-> ImplEncrypt(B, impl[B], n)]
       IN  /\ impl' = [B \in Batches |-> r[B][1]]
           /\ iout' = [B \in Batches |-> r[B][2]]
           /\ cat' = [B \in Batches |-> cat[B] \o r[B][2]]
    /\ calls' = calls + 1 /\ UNCHANGED <<akey, seg>>

Next ==
    \/ DoInit
    \/ \E c \in AllCounters : DoSetCounter(c)
    \/ \E k \in Keys : DoSetKey(k)
    \/ \E n \in 0..MaxReq : DoEncrypt(n)

Spec == Init /\ [][Next]_vars

----------------------------------------------------------------------------
(* C05: every back end produces the contract's keystream ...               *)
StreamLaw == \A B \in Batches : iout[B] = aout

(* C05, split independence: the concatenation of everything produced since  *)
(* the last position-defining call is ONE keystream from that position,     *)
(* however the data was cut into calls (zero-length calls included)         *)
SplitIndependent ==
    \A B \in Batches : cat[B] = AbsStream(seg.key, seg.pos, Len(cat[B]))

(* ... C06: hence all back ends agree with each other                      *)
BackendsAgree == \A B1, B2 \in Batches : iout[B1] = iout[B2]

(* refinement: every implementation state denotes the abstract position    *)
PosRefines == \A B \in Batches : ImplPos(B, impl[B]) = apos

(* implementation invariants *)
LanesStaggered ==
    \A B \in Batches : \A i \in 1..B :
        impl[B].lanes[i] = AddBE(RADIX, impl[B].lanes[1], i - 1)

TypeOK ==
    /\ apos[2] \in 0..(BSZ - 1)
    /\ \A B \in Batches : impl[B].offset \in 0..(B * BSZ)

=============================================================================
