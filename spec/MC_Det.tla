------------------------------- MODULE MC_Det -------------------------------
(***************************************************************************)
(* Determinism of the contract (C11): for the CTR position machine of      *)
(* Contract.tla -- the only part of the contract with hidden state -- the  *)
(* observable result of every call (return value, keystream positions     *)
(* used, next position) is a FUNCTION of the call history.  The model      *)
(* keeps, next to the state, the set of all <<history, call, result>>      *)
(* triples generated so far and TLC checks that no history/call pair ever  *)
(* receives two different results, and that the state is determined by the *)
(* history (no dependence on anything but the values passed in).           *)
(***************************************************************************)
EXTENDS Contract, TLC

CONSTANTS BSZ, RADIX, MaxCalls, MaxReq

VARIABLES hist, pos, keyed, obs
vars == <<hist, pos, keyed, obs>>

Counters == [1..BSZ -> 0..(RADIX-1)]

Init == hist = <<>> /\ pos = PosInit(BSZ) /\ keyed = FALSE /\ obs = {}

Result(call) ==
    CASE call[1] = "setctr" -> [ret |-> IF call[3] <= BSZ THEN 1 ELSE 0,
                                pos |-> IF call[3] <= BSZ THEN PosSetCounter(call[2]) ELSE pos,
                                keyed |-> keyed]
      [] call[1] = "setkey" -> [ret |-> 1, pos |-> PosRekey(RADIX, pos), keyed |-> TRUE]
      [] call[1] = "enc"    -> [ret |-> 1, pos |-> PosAdvance(RADIX, BSZ, pos, call[2]), keyed |-> keyed]

Call(call) ==
    /\ Len(hist) < MaxCalls
    /\ LET r == Result(call)
       IN  /\ pos' = r.pos /\ keyed' = r.keyed
           /\ obs' = obs \cup {<<hist, call, r>>}
    /\ hist' = Append(hist, call)

Next ==
    \/ \E c \in Counters, len \in {BSZ, BSZ + 1} : Call(<<"setctr", SubSeq(c, 1, BSZ), len>>)
    \/ Call(<<"setkey", 0, 0>>)
    \/ \E n \in 0..MaxReq : Call(<<"enc", n, 0>>)

Spec == Init /\ [][Next]_vars

Deterministic == \A a, b \in obs : (a[1] = b[1] /\ a[2] = b[2]) => a[3] = b[3]
=============================================================================
