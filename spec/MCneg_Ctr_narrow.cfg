SPECIFICATION Spec
CONSTANTS
  BSZ = 2
  RADIX = 4
  Batches = {1, 2, 4}
  MaxCalls = 4
  MaxReq = 17
  Keys = {"k1", "k2"}
  Shipped = {"narrow"}
INVARIANTS StreamLaw BackendsAgree
CHECK_DEADLOCK FALSE
