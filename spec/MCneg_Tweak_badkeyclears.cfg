SPECIFICATION Spec
CONSTANTS
  N = 3
  Vals = {0, 1, 2}
  Keys = {"k1", "k2"}
  MaxCalls = 4
  Variant = "badkeyclears"
INVARIANTS HistoryIndependence RememberedIsLast
CHECK_DEADLOCK FALSE
