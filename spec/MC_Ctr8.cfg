SPECIFICATION Spec
CONSTANTS
  BSZ = 2
  RADIX = 4
  Batches = {1, 8}
  MaxCalls = 3
  MaxReq = 33
  Keys = {"k1", "k2"}
  Shipped = {}
INVARIANTS TypeOK StreamLaw SplitIndependent BackendsAgree PosRefines LanesStaggered
CHECK_DEADLOCK FALSE
