SPECIFICATION Spec
CONSTANTS
  BSZ = 2
  RADIX = 4
  Batches = {1}
  MaxCalls = 5
  MaxReq = 17
  Keys = {"k1", "k2"}
  Shipped = {}
INVARIANTS TypeOK StreamLaw BackendsAgree PosRefines LanesStaggered
CHECK_DEADLOCK FALSE
