SPECIFICATION Spec
CONSTANTS
  BSZ = 2
  PSizes = {4, 8}
  MaxBytes = 51
  LenBits = 5
  Variant = "ok"
INVARIANT MapLaw
CHECK_DEADLOCK FALSE
