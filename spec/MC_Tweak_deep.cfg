SPECIFICATION Spec
CONSTANTS
  N = 4
  Vals = {0, 1, 2, 3}
  Keys = {"k1", "k2"}
  MaxCalls = 8
  Variant = "ok"
INVARIANTS HistoryIndependence RememberedIsLast
CHECK_DEADLOCK FALSE
