SPECIFICATION Spec
CONSTANTS
  Objs = {1, 2}
  MaxBlocks = 3
  MaxCalls = 7
  Shipped = FALSE
INVARIANTS NoCrash NoLeak FreeOnce WipedAtFree RetContract FailedIsInert
CHECK_DEADLOCK FALSE
