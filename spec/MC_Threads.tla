----------------------------- MODULE MC_Threads -----------------------------
(***************************************************************************)
(* Design-level model of thread safety (C18).                              *)
(* Each thread runs a program of calls.  A call is split into the steps at *)
(* which it touches memory, each with a footprint:                         *)
(*    Probe      (init only) read CPUID -- no memory                       *)
(*    ReadShared read the shared, read-only key schedule                   *)
(*    Load       read own input into own stack                             *)
(*    Store      write own output / own object                             *)
(* TLC explores every interleaving of these steps over all threads.        *)
(* Invariants: no step writes a location another thread may access (race   *)
(* freedom) and every thread's results equal the sequential results.       *)
(* Variant "scratch" routes the computation through one static scratch     *)
(* buffer, variant "cache" caches the probe result in a static without     *)
(* synchronisation (a write to shared state): both must fail.              *)
(***************************************************************************)
EXTENDS Naturals, FiniteSets, TLC

CONSTANTS Threads, NCalls, Variant

VARIABLES pc,        \* [Threads -> [call, step]]
          inreg,     \* own stack register per thread
          out,       \* [Threads -> sequence index -> result]
          glob,      \* the (wrong variants') static storage
          wrote      \* set of <<thread, location>> writes to non-own locations
vars == <<pc, inreg, out, glob, wrote>>

Steps == <<"probe", "readshared", "load", "store">>
Input(t, c) == <<"in", t, c>>
F(x) == <<"F", x>>
None == <<"none">>

Init ==
    /\ pc = [t \in Threads |-> [call |-> 1, step |-> 1]]
    /\ inreg = [t \in Threads |-> None]
    /\ out = [t \in Threads |-> [c \in 1..NCalls |-> None]]
    /\ glob = None
    /\ wrote = {}

Advance(t) ==
    pc' = [pc EXCEPT ![t] = IF @.step = 4 THEN [call |-> @.call + 1, step |-> 1]
                                          ELSE [call |-> @.call, step |-> @.step + 1]]

DoStep(t) ==
    /\ pc[t].call <= NCalls
    /\ LET c == pc[t].call  st == Steps[pc[t].step]
       IN  CASE st = "probe" ->
                  /\ IF Variant = "cache" /\ glob = None
                     THEN glob' = "probed" /\ wrote' = wrote \cup {<<t, "glob">>}
                     ELSE UNCHANGED <<glob, wrote>>
                  /\ UNCHANGED <<inreg, out>>
             [] st = "readshared" -> UNCHANGED <<inreg, out, glob, wrote>>
             [] st = "load" ->
                  IF Variant = "scratch"
                  THEN glob' = Input(t, c) /\ wrote' = wrote \cup {<<t, "glob">>} /\ UNCHANGED <<inreg, out>>
                  ELSE inreg' = [inreg EXCEPT ![t] = Input(t, c)] /\ UNCHANGED <<out, glob, wrote>>
             [] st = "store" ->
                  /\ out' = [out EXCEPT ![t][c] = F(IF Variant = "scratch" THEN glob ELSE inreg[t])]
                  /\ UNCHANGED <<inreg, glob, wrote>>
    /\ Advance(t)

Next == \E t \in Threads : DoStep(t)
Spec == Init /\ [][Next]_vars

(* every write lands in the caller's own object, buffers or stack *)
RaceFree == wrote = {}
(* results equal the sequential ones *)
SeqEquivalent == \A t \in Threads : \A c \in 1..NCalls :
                     out[t][c] # None => out[t][c] = F(Input(t, c))
=============================================================================
