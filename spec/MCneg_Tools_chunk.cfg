SPECIFICATION Spec
CONSTANTS
  CHUNK = 6
  BSZ = 4
  MaxLen = 19
  Variant = "ok"
INVARIANTS ClassifierLaw ChunkLaw
CHECK_DEADLOCK FALSE
