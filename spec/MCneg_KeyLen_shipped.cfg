SPECIFICATION Spec
CONSTANTS
  ROWS = 4
  WB = 4
  MaxExtra = 16
  Shipped = TRUE
INVARIANT KeyLenLaw
CHECK_DEADLOCK FALSE
