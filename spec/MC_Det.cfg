SPECIFICATION Spec
CONSTANTS
  BSZ = 2
  RADIX = 3
  MaxCalls = 3
  MaxReq = 5
INVARIANT Deterministic
CHECK_DEADLOCK FALSE
