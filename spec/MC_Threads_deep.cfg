SPECIFICATION Spec
CONSTANTS
  Threads = {1, 2, 3, 4}
  NCalls = 3
  Variant = "ok"
INVARIANTS RaceFree SeqEquivalent
CHECK_DEADLOCK FALSE
