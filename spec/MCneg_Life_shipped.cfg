SPECIFICATION Spec
CONSTANTS
  Objs = {1, 2}
  MaxBlocks = 3
  MaxCalls = 7
  Shipped = TRUE
INVARIANT NoCrash
CHECK_DEADLOCK FALSE
