------------------------------ MODULE Gen_Ctr ------------------------------
(***************************************************************************)
(* Abstract machine of ONE CTR object for scenario generation (spec ->     *)
(* impl): life-cycle phase x key state (family and size class) x stream-   *)
(* position class, and one action per public function AND argument class   *)
(* the code distinguishes.  TLC dumps its complete state graph (-dump      *)
(* dot,actionlabels); vcheck turns it into call sequences that cover EVERY *)
(* edge, concretises the argument classes from the seed, executes them on  *)
(* the real library (all kinds, all back ends) and validates the recorded  *)
(* trace against the contract (SkinnyTrace).  The machine itself asserts   *)
(* nothing: it only guarantees that every modelled transition is exercised *)
(* at least once.  KS = the key-size classes (in blocks) to distinguish:   *)
(* {1} for the error-contract scenarios, {1,2,3} for the wipe scenarios    *)
(* (re-keying from a longer to a shorter key leaves old round keys behind).*)
(***************************************************************************)
EXTENDS Naturals, TLC

CONSTANT KS,
         TrackPrev   \* TRUE: also distinguish "the key of the OTHER family that this object held before"

VARIABLES life, keyed, pos, prev
vars == <<life, keyed, pos, prev>>

(* life: zeroed | live | failed | dead;  keyed: <<family, size>> with family   *)
(* none | plain | tweaked;  pos: "b" block boundary, "m" middle of a block     *)
(* prev: the key (family, size) that was replaced by a key of the other family most      *)
(* recently - handing those very bytes back (class "previous") is where a "same key as    *)
(* last time" shortcut that the other family's functions forget to invalidate goes wrong  *)
NoKey == <<"none", 0>>
Init == life = "zeroed" /\ keyed = NoKey /\ pos = "b" /\ prev = NoKey
Replaced(fam) == IF TrackPrev /\ keyed[1] # "none" /\ keyed[1] # fam THEN keyed ELSE prev

Live == life = "live"

DoInit(fail) ==
    /\ life # "live"
    /\ life' = (IF fail THEN "failed" ELSE "live")
    /\ keyed' = NoKey /\ pos' = "b" /\ prev' = NoKey

DoCleanup ==
    /\ life' = (IF Live THEN "dead" ELSE life)
    /\ keyed' = (IF Live THEN NoKey ELSE keyed)
    /\ pos' = (IF Live THEN "b" ELSE pos)
    /\ prev' = (IF Live THEN NoKey ELSE prev)

(* cls: valid (z = size class) | same (the very key bytes that are in force, only when the  *)
(*      object is keyed in this family) | null | short | long | badrounds (z = 0)            *)
DoSetKey(cls, z) ==
    /\ cls = "same" => Live /\ keyed[1] = "plain"
    /\ cls = "previous" => Live /\ keyed[1] = "tweaked" /\ prev[1] = "plain"
    /\ IF Live /\ cls = "valid" THEN keyed' = <<"plain", z>> /\ pos' = "b" /\ prev' = Replaced("plain")
       ELSE IF cls = "same" THEN pos' = "b" /\ UNCHANGED <<keyed, prev>>
       ELSE IF cls = "previous" THEN keyed' = prev /\ prev' = keyed /\ pos' = "b"
       ELSE UNCHANGED <<keyed, pos, prev>>
    /\ UNCHANGED life

DoSetTweakedKey(cls, z) ==
    /\ cls = "same" => Live /\ keyed[1] = "tweaked"
    /\ cls = "previous" => Live /\ keyed[1] = "plain" /\ prev[1] = "tweaked"
    /\ IF Live /\ cls = "valid" THEN keyed' = <<"tweaked", z>> /\ pos' = "b" /\ prev' = Replaced("tweaked")
       ELSE IF cls = "same" THEN pos' = "b" /\ UNCHANGED <<keyed, prev>>
       ELSE IF cls = "previous" THEN keyed' = prev /\ prev' = keyed /\ pos' = "b"
       ELSE UNCHANGED <<keyed, pos, prev>>
    /\ UNCHANGED life

(* cls: full | same (the value that is already in force, full length) | short | null |   *)
(*      zero_len | too_long ; on ANY key state (on a plainly keyed  *)
(* object the code applies its incremental update to the plain schedule: modelled)       *)
DoSetTweak(cls) ==
    /\ IF Live /\ cls \in {"full", "same", "short", "null"} THEN pos' = "b" ELSE UNCHANGED pos
    /\ UNCHANGED <<life, keyed, prev>>

(* cls: full | same (the counter value the stream has reached) | short | empty | null | too_long *)
DoSetCounter(cls) ==
    /\ IF Live /\ cls # "too_long" THEN pos' = "b" ELSE UNCHANGED pos
    /\ UNCHANGED <<life, keyed, prev>>

(* cls: zero | part (ends inside a block) | align (ends at a block boundary) |        *)
(*      long_part | long_align (more than two SIMD batches) | batch (ends exactly at  *)
(*      a multiple of 8 blocks since the position was last defined: every back end's  *)
(*      keystream buffer is used up) | null_in | null_out                             *)
DoEncrypt(cls) ==
    /\ IF Live /\ cls \in {"part", "long_part"} THEN pos' = "m"
       ELSE IF Live /\ cls \in {"align", "long_align", "batch"} THEN pos' = "b"
       ELSE UNCHANGED pos
    /\ UNCHANGED <<life, keyed, prev>>

Next ==
    \/ \E f \in BOOLEAN : DoInit(f)
    \/ DoCleanup
    \/ \E z \in KS : DoSetKey("valid", z)
    \/ \E c \in {"null", "short", "long", "badrounds"} : DoSetKey(c, 0)
    \/ \E z \in KS \cap {1, 2} : DoSetTweakedKey("valid", z)
    \/ \E c \in {"null", "short", "long"} : DoSetTweakedKey(c, 0)
    \/ \E c \in {"full", "same", "short", "null", "zero_len", "too_long"} : DoSetTweak(c)
    \/ \E c \in {"full", "short", "empty", "null", "too_long"} : DoSetCounter(c)
    \/ DoSetKey("same", 0) \/ DoSetTweakedKey("same", 0)
    \/ DoSetKey("previous", 0) \/ DoSetTweakedKey("previous", 0)
    \/ \E c \in {"zero", "part", "align", "long_part", "long_align", "batch", "null_in", "null_out"} : DoEncrypt(c)

Spec == Init /\ [][Next]_vars
=============================================================================
