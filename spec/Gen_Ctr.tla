------------------------------ MODULE Gen_Ctr ------------------------------
(***************************************************************************)
(* Abstract machine of ONE CTR object for scenario generation (spec ->     *)
(* impl): life-cycle phase x key state x stream-position class, and one    *)
(* action per public function AND argument class the code distinguishes.   *)
(* TLC dumps its complete state graph (-dump dot,actionlabels); vcheck     *)
(* turns it into call sequences that cover EVERY edge, concretises the     *)
(* argument classes from the seed, executes them on the real library (all  *)
(* kinds, all back ends) and validates the recorded trace against the      *)
(* contract (SkinnyTrace).  The machine itself asserts nothing: it only    *)
(* guarantees that every modelled transition is exercised at least once.   *)
(***************************************************************************)
EXTENDS Naturals, TLC

VARIABLES life, keyed, pos
vars == <<life, keyed, pos>>

(* life: zeroed | live | failed | dead;  keyed: none | plain | tweaked;      *)
(* pos: "b" block boundary, "m" middle of a block                            *)
Init == life = "zeroed" /\ keyed = "none" /\ pos = "b"

Live == life = "live"

DoInit(fail) ==
    /\ life # "live"
    /\ life' = IF fail THEN "failed" ELSE "live"
    /\ keyed' = "none" /\ pos' = "b"

DoCleanup ==
    /\ life' = IF Live THEN "dead" ELSE life
    /\ keyed' = IF Live THEN "none" ELSE keyed
    /\ pos' = IF Live THEN "b" ELSE pos

(* cls: valid | null | short | long | badrounds *)
DoSetKey(cls) ==
    /\ IF Live /\ cls = "valid" THEN keyed' = "plain" /\ pos' = "b" ELSE UNCHANGED <<keyed, pos>>
    /\ UNCHANGED life

DoSetTweakedKey(cls) ==
    /\ IF Live /\ cls = "valid" THEN keyed' = "tweaked" /\ pos' = "b" ELSE UNCHANGED <<keyed, pos>>
    /\ UNCHANGED life

(* cls: full | short | null | zero_len | too_long ; on ANY key state (on a plainly keyed  *)
(* object the code applies its incremental update to the plain schedule: modelled)       *)
DoSetTweak(cls) ==
    /\ IF Live /\ cls \in {"full", "short", "null"} THEN pos' = "b" ELSE UNCHANGED pos
    /\ UNCHANGED <<life, keyed>>

(* cls: full | short | empty | null | too_long *)
DoSetCounter(cls) ==
    /\ IF Live /\ cls # "too_long" THEN pos' = "b" ELSE UNCHANGED pos
    /\ UNCHANGED <<life, keyed>>

(* cls: zero | part (ends inside a block) | align (ends at a block boundary) |   *)
(*      long_part | long_align (more than two SIMD batches) | null_in | null_out  *)
DoEncrypt(cls) ==
    /\ IF Live /\ cls \in {"part", "long_part"} THEN pos' = "m"
       ELSE IF Live /\ cls \in {"align", "long_align"} THEN pos' = "b"
       ELSE UNCHANGED pos
    /\ UNCHANGED <<life, keyed>>

Next ==
    \/ \E f \in BOOLEAN : DoInit(f)
    \/ DoCleanup
    \/ \E c \in {"valid", "null", "short", "long", "badrounds"} : DoSetKey(c)
    \/ \E c \in {"valid", "null", "short", "long"} : DoSetTweakedKey(c)
    \/ \E c \in {"full", "short", "null", "zero_len", "too_long"} : DoSetTweak(c)
    \/ \E c \in {"full", "short", "empty", "null", "too_long"} : DoSetCounter(c)
    \/ \E c \in {"zero", "part", "align", "long_part", "long_align", "null_in", "null_out"} : DoEncrypt(c)

Spec == Init /\ [][Next]_vars
=============================================================================
