SPECIFICATION ArdSpec
POSTCONDITION TraceAccepted
CHECK_DEADLOCK FALSE
