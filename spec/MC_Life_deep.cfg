SPECIFICATION Spec
CONSTANTS
  Objs = {1, 2, 3}
  MaxBlocks = 4
  MaxCalls = 14
  Shipped = FALSE
INVARIANTS NoCrash NoLeak FreeOnce WipedAtFree RetContract FailedIsInert
CHECK_DEADLOCK FALSE
