---------------------------- MODULE SkinnyTrace ----------------------------
(***************************************************************************)
(* Trace validation of the real skinny-c library against the contract.     *)
(*                                                                         *)
(* The trace (NDJSON, one event per public call, produced by harness/drv)  *)
(* is consumed one line per step.  Every action is                         *)
(*      IsEvent(name) /\ <contract transition> /\ <every logged field>     *)
(* so the validation is deterministic and linear in the trace length.      *)
(* A trace is accepted iff every line could be consumed (TraceAccepted).   *)
(*                                                                         *)
(* State (all objects of one execution; "reset" starts a new execution):   *)
(*   ks[kind][o]    plain key schedules          (public structs)          *)
(*   tks[kind][o]   tweakable key schedules      (public structs)          *)
(*   mks[o]         Mantis key schedules         (public structs)          *)
(*   ctr[kind][o]   CTR objects (life, back end, key state, position)      *)
(*   par[kind][o]   parallel-ECB objects                                   *)
(*   live           number of heap blocks the library owns                 *)
(*   env            CPU / build facts logged by the harness                *)
(***************************************************************************)
EXTENDS Contract, MantisSpec, Json, IOUtils

TraceLog == ndJsonDeserialize(IOEnv.TRACE)

VARIABLES l, env, ks, tks, mks, ctr, par, live
vars == <<l, env, ks, tks, mks, ctr, par, live>>

Objs == 0..7
SKinds == {"s128", "s64"}
CW(kind) == IF kind = "s128" THEN 8 ELSE 4

----------------------------------------------------------------------------
(* diagnostics: a failing comparison prints what the contract expected      *)
Chk(what, expected, actual) ==
    IF expected = actual THEN TRUE
    ELSE PrintT(<<"MISMATCH at line", l, what, "expected", expected, "logged", actual>>) /\ FALSE

Has(ev, f) == f \in DOMAIN ev

----------------------------------------------------------------------------
(* Object states                                                           *)

KsUnset  == [set |-> FALSE, tk |-> <<>>, adds |-> <<>>]
TksUnset(kind) == [set |-> FALSE, fam |-> "tweaked", key |-> <<>>, tw |-> ZeroSeq(BS(kind)), adds |-> <<>>]
MksUnset == [set |-> FALSE, key |-> <<>>, mode |-> "enc", tw |-> ZeroSeq(8), r |-> 0]

(* key state embedded in CTR / parallel objects *)
(* never keyed: the zero-allocated context.  For Mantis the tweak slot can still be set   *)
(* (and matters: the 0-round cipher depends on it); keying resets it to zero.          *)
KeyNone(kind) == [kd |-> "none", tw |-> ZeroSeq(BS(kind))]

(* csz: width of the counter in bytes -- always the block size in the C library;  *)
(* the Arduino CTR wrapper can narrow it (ArduinoTrace)                           *)
CtrZeroed(kind) == [life |-> "zeroed", be |-> "gen", key |-> KeyNone(kind),
                    pos |-> PosInit(BS(kind)), csz |-> BS(kind), own |-> 0]
ParZeroed(kind) == [life |-> "zeroed", be |-> "gen", key |-> KeyNone(kind), own |-> 0]

KsInit  == [k \in SKinds |-> [o \in Objs |-> KsUnset]]
TksInit == [k \in SKinds |-> [o \in Objs |-> TksUnset(k)]]
MksInit == [o \in Objs |-> MksUnset]
CtrInit == [k \in Kinds |-> [o \in Objs |-> CtrZeroed(k)]]
ParInit == [k \in Kinds |-> [o \in Objs |-> ParZeroed(k)]]

InitState ==
    /\ ks = KsInit /\ tks = TksInit /\ mks = MksInit
    /\ ctr = CtrInit /\ par = ParInit /\ live = 0

DefaultEnv == [sse2 |-> 1, avx2 |-> 1, built128 |-> 1, built256 |-> 1, hook |-> 1]

TraceInit == l = 1 /\ env = DefaultEnv /\ InitState

----------------------------------------------------------------------------
(* Cipher views of a key state                                             *)

(* key schedule images as a public struct would hold them *)
KsRounds(kind, st) == IF st.set THEN Len(st.adds) ELSE 0
KsImage(kind, st)  == SchedImage(CW(kind), st.adds)

MkImage(st) ==
    IF st.set THEN MKs(st.key, st.mode)
    ELSE [k0 |-> ZeroSeq(8), k0p |-> ZeroSeq(8), k1 |-> ZeroSeq(8)]

(* Block functions of an embedded key state (CTR / parallel objects).      *)
(* kd = "none": the context is zero-allocated, which the code treats as    *)
(* the 0-round cipher (identity for SKINNY, middle layer for MANTIS).      *)
NAdds(key, rr) == IF rr < 0 THEN key.adds ELSE SubSeq(key.adds, 1, rr)

KeyEnc(kind, key, rr, blk) ==
    CASE key.kd = "none"   -> IF kind = "mantis" THEN MCore(MkImage(MksUnset), key.tw, 0, blk) ELSE blk
      [] key.kd = "mantis" -> MCore(MKs(key.key, key.mode), key.tw, IF rr < 0 THEN key.r ELSE rr, blk)
      [] OTHER             -> BytesOf(CW(kind), EncCells(CW(kind), CellsOf(CW(kind), blk), NAdds(key, rr)))

KeyDec(kind, key, rr, blk) ==
    CASE key.kd = "none"   -> blk
      [] OTHER             -> BytesOf(CW(kind), DecCells(CW(kind), CellsOf(CW(kind), blk), NAdds(key, rr)))

(* Mantis parallel: block under an explicit tweak *)
KeyMantisTw(key, rr, tw, blk) ==
    IF key.kd = "none" THEN MCore(MkImage(MksUnset), tw, 0, blk)
    ELSE MCore(MKs(key.key, key.mode), tw, IF rr < 0 THEN key.r ELSE rr, blk)

(* tw: the remembered-tweak slot of the embedded tweakable schedule; a plain   *)
(* key leaves it as it was (it only matters if set_tweak is called later)      *)
PlainKeyT(kind, key, len, tw) ==
    LET tk == PadKey(kind, key, len)
    IN  [kd |-> "plain", tk |-> tk, tw |-> tw,
         adds |-> SkAdds(CW(kind), tk, FALSE, FullRounds(CW(kind), Len(tk) \div BS(kind)))]
PlainKey(kind, key, len) == PlainKeyT(kind, key, len, ZeroSeq(BS(kind)))

TweakedKey(kind, pkey, tw) ==
    LET tk == tw \o pkey
    IN  [kd |-> "tweaked", pkey |-> pkey, tw |-> tw,
         adds |-> SkAdds(CW(kind), tk, TRUE, FullRounds(CW(kind), Len(tk) \div BS(kind)))]

----------------------------------------------------------------------------
(* Event plumbing                                                          *)

Ev == TraceLog[l]
IsEvent(e) == l <= Len(TraceLog) /\ TraceLog[l].e = e /\ l' = l + 1

(* checks common to every call event: no write outside the output extent,   *)
(* no invalid free, heap balance as the contract says                       *)
Frame(ev, newlive) ==
    /\ Chk("stray writes", 0, ev.stray)
    /\ Chk("invalid free / heap corruption", 0, ev.badfree)
    \* whatever call releases a block that was object state (allocated by an earlier call) releases it
    \* wiped -- a re-keying that swaps in a fresh context must not hand the old one back unwiped
    /\ IF Has(ev, "nzo") THEN Chk("non-zero bytes in released object state", 0, ev.nzo) ELSE TRUE
    /\ Chk("live heap blocks", newlive, ev.lv)

(* a call that is neither init nor cleanup leaves the set of owned blocks as it was *)
NoHeap(ev) == Frame(ev, live) /\ live' = live

RR(ev) == IF Has(ev, "rr") THEN ev.rr ELSE -1

----------------------------------------------------------------------------
(* Environment and bookkeeping events                                      *)

TEnv == /\ IsEvent("env")
        /\ env' = [sse2 |-> Ev.sse2, avx2 |-> Ev.avx2, built128 |-> Ev.built128,
                   built256 |-> Ev.built256, hook |-> Ev.hook]
        /\ UNCHANGED <<ks, tks, mks, ctr, par, live>>

(* C13 on any x86 model: from this event on the process sees the CPU described in it (the     *)
(* driver answers every CPUID instruction from that description, see harness/drv.c).  What    *)
(* a correct probe may conclude: SSE2 from leaf 1; AVX2 only if leaf 7 exists (maxleaf >= 7), *)
(* its EBX bit 5 is set AND the operating system has enabled the YMM state (OSXSAVE and       *)
(* XCR0[2:1] = 11b).  All other register bits are noise.                                      *)
TCpu == /\ IsEvent("cpu")
        /\ Chk("CPUID faulting available", 1, Ev.ok)
        /\ IF Ev.on = 1
           THEN env' = [env EXCEPT !.sse2 = Ev.sse2,
                                   !.avx2 = IF Ev.maxleaf >= 7 /\ Ev.avx2 = 1 /\ Ev.osxsave = 1 /\ Ev.ymm = 1
                                            THEN 1 ELSE 0]
           ELSE UNCHANGED env
        /\ UNCHANGED <<ks, tks, mks, ctr, par, live>>

TLayout == /\ IsEvent("layout")
           /\ Chk("layout heap balance", 0, Ev.lv)
           /\ UNCHANGED <<env, ks, tks, mks, ctr, par, live>>

(* a new execution: everything the previous one allocated must be gone      *)
TReset == /\ IsEvent("reset")
          /\ ks' = KsInit /\ tks' = TksInit /\ mks' = MksInit
          /\ ctr' = CtrInit /\ par' = ParInit /\ live' = 0
          /\ UNCHANGED env

(* C18: the main thread's objects number 7 are copied into a page that is made
   read-only and handed to every thread; nothing changes in the model: the
   shared object keeps denoting the same cipher, whoever uses it and when *)
TShare == /\ IsEvent("share")
          /\ UNCHANGED <<env, ks, tks, mks, ctr, par, live>>

(* C18, structural fact recorded from the guard-off build: the library has no
   writable static storage (size of .data + .bss over all its objects) *)
TStaticData == /\ IsEvent("static_data")
               /\ Chk("bytes of writable static storage in the library", 0, Ev.bytes)
               /\ UNCHANGED <<env, ks, tks, mks, ctr, par, live>>

TQuiesce == /\ IsEvent("quiesce")
            /\ Chk("live heap blocks at quiesce", live, Ev.lv)
            /\ UNCHANGED <<env, ks, tks, mks, ctr, par, live>>

----------------------------------------------------------------------------
(* Plain and tweakable SKINNY key schedules (C01, C04, C10, C14)           *)

TKsSetKey ==
    /\ IsEvent("ks_set_key") /\ Ev.t = 0
    /\ LET ev == Ev  kind == ev.k  o == ev.o
           valid == o >= 0 /\ ev.key_null = 0 /\ ValidKeyLen(kind, FALSE, ev.len)
       IN  /\ Chk("ks_set_key ret", IF valid THEN 1 ELSE 0, ev.ret)
           /\ IF o < 0 THEN UNCHANGED ks
              ELSE LET new == IF valid
                              THEN LET k == PlainKey(kind, ev.key, ev.len)
                                   IN [set |-> TRUE, tk |-> k.tk, adds |-> k.adds]
                              ELSE ks[kind][o]
                   IN  /\ Chk("rounds", KsRounds(kind, new), ev.rounds)
                       /\ Chk("schedule image", KsImage(kind, new), ev.sched)
                       /\ ks' = [ks EXCEPT ![kind][o] = new]
           /\ NoHeap(ev)
    /\ UNCHANGED <<env, tks, mks, ctr, par>>

(* skinnyNN_set_key applied to the public inner schedule (.ks) of a tweakable   *)
(* key object: a plain key, the remembered tweak slot stays as it was          *)
TKsSetKeyInner ==
    /\ IsEvent("ks_set_key") /\ Ev.t = 1
    /\ LET ev == Ev  kind == ev.k  o == ev.o
           valid == o >= 0 /\ ev.key_null = 0 /\ ValidKeyLen(kind, FALSE, ev.len)
       IN  /\ Chk("ks_set_key ret", IF valid THEN 1 ELSE 0, ev.ret)
           /\ IF o < 0 THEN UNCHANGED tks
              ELSE LET old == tks[kind][o]
                       new == IF valid
                              THEN LET k == PlainKey(kind, ev.key, ev.len)
                                   IN [set |-> TRUE, fam |-> "plain", key |-> k.tk, tw |-> old.tw, adds |-> k.adds]
                              ELSE old
                   IN  /\ Chk("rounds", KsRounds(kind, new), ev.rounds)
                       /\ Chk("schedule image", KsImage(kind, new), ev.sched)
                       /\ Chk("remembered tweak", new.tw, ev.tw)
                       /\ tks' = [tks EXCEPT ![kind][o] = new]
           /\ NoHeap(ev)
    /\ UNCHANGED <<env, ks, mks, ctr, par>>

TKsSetTweakedKey ==
    /\ IsEvent("ks_set_tweaked_key")
    /\ LET ev == Ev  kind == ev.k  o == ev.o
           valid == o >= 0 /\ ev.key_null = 0 /\ ValidKeyLen(kind, TRUE, ev.len)
       IN  /\ Chk("ks_set_tweaked_key ret", IF valid THEN 1 ELSE 0, ev.ret)
           /\ IF o < 0 THEN UNCHANGED tks
              ELSE LET new == IF valid
                              THEN LET k == TweakedKey(kind, PadKey(kind, ev.key, ev.len), ZeroSeq(BS(kind)))
                                   IN [set |-> TRUE, fam |-> "tweaked", key |-> k.pkey, tw |-> k.tw, adds |-> k.adds]
                              ELSE tks[kind][o]
                   IN  /\ Chk("rounds", KsRounds(kind, new), ev.rounds)
                       /\ Chk("schedule image", KsImage(kind, new), ev.sched)
                       /\ Chk("remembered tweak", new.tw, ev.tw)
                       /\ tks' = [tks EXCEPT ![kind][o] = new]
           /\ NoHeap(ev)
    /\ UNCHANGED <<env, ks, mks, ctr, par>>

(* History independence (C04): the new state is computed from the key and   *)
(* the NEW tweak alone -- no earlier tweak occurs in the right-hand side.    *)
TKsSetTweak ==
    /\ IsEvent("ks_set_tweak")
    /\ LET ev == Ev  kind == ev.k  o == ev.o
           valid == o >= 0 /\ ValidTweakLen(kind, ev.len)
       IN  /\ Chk("ks_set_tweak ret", IF valid THEN 1 ELSE 0, ev.ret)
           /\ IF o < 0 THEN UNCHANGED tks
              ELSE LET old == tks[kind][o]
                       tw  == PadTweak(kind, ev.tweak, ev.len, ev.tweak_null = 1)
                       new == IF ~valid THEN old
                              ELSE IF old.set /\ old.fam = "tweaked"
                              THEN LET k == TweakedKey(kind, old.key, tw)
                                   IN [set |-> TRUE, fam |-> "tweaked", key |-> k.pkey, tw |-> k.tw, adds |-> k.adds]
                              ELSE IF old.set
                              THEN \* inner schedule keyed plainly through the public .ks member: the code's
                                   \* incremental update on a plain schedule (implementation-defined, modelled)
                                   [old EXCEPT !.tw = tw,
                                               !.adds = XorAdds(XorAdds(@, Tk1Contrib(CW(kind), old.tw, Len(@))),
                                                                Tk1Contrib(CW(kind), tw, Len(@)))]
                              ELSE [old EXCEPT !.tw = tw]
                   IN  /\ Chk("rounds", KsRounds(kind, new), ev.rounds)
                       /\ Chk("schedule image", KsImage(kind, new), ev.sched)
                       /\ Chk("remembered tweak", new.tw, ev.tw)
                       /\ tks' = [tks EXCEPT ![kind][o] = new]
           /\ NoHeap(ev)
    /\ UNCHANGED <<env, ks, mks, ctr, par>>

KsCrypt(enc) ==
    LET ev == Ev  kind == ev.k  o == ev.o
        st   == IF ev.t = 1 THEN tks[kind][o] ELSE ks[kind][o]
        rr   == RR(ev)
        adds == IF rr < 0 THEN st.adds ELSE SubSeq(st.adds, 1, rr)
        cw   == CW(kind)
        exp  == IF enc THEN BytesOf(cw, EncCells(cw, CellsOf(cw, ev.in), adds))
                       ELSE BytesOf(cw, DecCells(cw, CellsOf(cw, ev.in), adds))
    IN  /\ Chk(IF enc THEN "ks_enc output" ELSE "ks_dec output", exp, ev.out)
        /\ NoHeap(ev)
        /\ UNCHANGED <<env, ks, tks, mks, ctr, par>>

TKsEnc == IsEvent("ks_enc") /\ KsCrypt(TRUE)
TKsDec == IsEvent("ks_dec") /\ KsCrypt(FALSE)

----------------------------------------------------------------------------
(* Mantis key schedules (C02, C03)                                         *)

MkChecks(ev, st) ==
    LET im == MkImage(st)
    IN  /\ Chk("mantis rounds", st.r, ev.rounds)
        /\ Chk("mantis k0", im.k0, ev.k0)
        /\ Chk("mantis k0'", im.k0p, ev.k0p)
        /\ Chk("mantis k1", im.k1, ev.k1)
        /\ Chk("mantis tweak", st.tw, ev.tw)

TMkSetKey ==
    /\ IsEvent("mk_set_key")
    /\ LET ev == Ev  o == ev.o
           valid == o >= 0 /\ ev.key_null = 0 /\ ValidKeyLen("mantis", FALSE, ev.len)
                    /\ ValidMantisRounds(ev.nr)
       IN  /\ Chk("mk_set_key ret", IF valid THEN 1 ELSE 0, ev.ret)
           /\ IF o < 0 THEN UNCHANGED mks
              ELSE LET new == IF valid
                              THEN [set |-> TRUE, key |-> ev.key,
                                    mode |-> IF ev.mode = 1 THEN "enc" ELSE "dec",
                                    tw |-> ZeroSeq(8), r |-> ev.nr]
                              ELSE mks[o]
                   IN  MkChecks(ev, new) /\ mks' = [mks EXCEPT ![o] = new]
           /\ NoHeap(ev)
    /\ UNCHANGED <<env, ks, tks, ctr, par>>

TMkSetTweak ==
    /\ IsEvent("mk_set_tweak")
    /\ LET ev == Ev  o == ev.o
           valid == o >= 0 /\ ValidTweakLen("mantis", ev.len)
       IN  /\ Chk("mk_set_tweak ret", IF valid THEN 1 ELSE 0, ev.ret)
           /\ IF o < 0 THEN UNCHANGED mks
              ELSE LET new == IF valid
                              THEN [mks[o] EXCEPT !.tw = PadTweak("mantis", ev.tweak, 8, ev.tweak_null = 1)]
                              ELSE mks[o]
                   IN  MkChecks(ev, new) /\ mks' = [mks EXCEPT ![o] = new]
           /\ NoHeap(ev)
    /\ UNCHANGED <<env, ks, tks, ctr, par>>

(* Mode algebra (C03): after a switch the object IS the schedule keyed      *)
(* afresh in the other mode with the tweak preserved.                       *)
TMkSwap ==
    /\ IsEvent("mk_swap")
    /\ LET ev == Ev  o == ev.o
           new == [mks[o] EXCEPT !.mode = IF @ = "enc" THEN "dec" ELSE "enc"]
       IN  /\ mks[o].set
           /\ MkChecks(ev, new) /\ mks' = [mks EXCEPT ![o] = new]
           /\ NoHeap(ev)
    /\ UNCHANGED <<env, ks, tks, ctr, par>>

TMkCrypt ==
    /\ IsEvent("mk_crypt")
    /\ LET ev == Ev  st == mks[ev.o]  rr == RR(ev)
       IN  /\ Chk("mk_crypt output",
                  MCore(MkImage(st), st.tw, IF rr < 0 THEN st.r ELSE rr, ev.in), ev.out)
           /\ NoHeap(ev)
    /\ UNCHANGED <<env, ks, tks, mks, ctr, par>>

TMkCryptTw ==
    /\ IsEvent("mk_crypt_tw")
    /\ LET ev == Ev  st == mks[ev.o]  rr == RR(ev)
       IN  /\ Chk("mk_crypt_tw output",
                  MCore(MkImage(st), ev.tweak, IF rr < 0 THEN st.r ELSE rr, ev.in), ev.out)
           /\ NoHeap(ev)
    /\ UNCHANGED <<env, ks, tks, mks, ctr, par>>

----------------------------------------------------------------------------
(* Life cycle shared by CTR and parallel objects (C13, C15, C16, C17)      *)

CapOf(ev) == IF env.hook = 1 /\ Has(ev, "cap") THEN ev.cap ELSE 2

(* init: o = -1 (NULL) is an invalid call; an allocation failure injected    *)
(* into ANY of the requests the init makes (ev.failed = 1: the failure was   *)
(* actually delivered) must leave the object inert ("failed") and nothing    *)
(* allocated; otherwise the object is live and is served by the widest back  *)
(* end.  How many requests and releases an init performs, and how many       *)
(* blocks a live object owns, is not part of the contract: the object owns   *)
(* whatever the successful init kept (dl = ev.lv - live >= 0, remembered per *)
(* object), no other call changes the number of live blocks, and cleanup     *)
(* gives back exactly what the object owns.                                  *)
InitOutcome(ev, kind, oldlife) ==
    IF ev.o < 0 THEN [ret |-> 0, life |-> "none", dl |-> 0]
    ELSE IF ev.failed = 1 THEN [ret |-> 0, life |-> "failed", dl |-> 0]
    ELSE [ret |-> 1, life |-> "live", dl |-> IF ev.lv >= live THEN ev.lv - live ELSE 0]

----------------------------------------------------------------------------
(* CTR objects (C05, C06, C14..C17)                                        *)

TCtrInit ==
    /\ IsEvent("ctr_init")
    /\ LET ev == Ev  kind == ev.k  o == ev.o
           oc == InitOutcome(ev, kind, IF o < 0 THEN "none" ELSE ctr[kind][o].life)
       IN  /\ o >= 0 => MayInit(ctr[kind][o].life)
           /\ Chk("ctr_init ret", oc.ret, ev.ret)
           /\ oc.ret = 1 => Chk("selected back end", Widest(env, kind, CapOf(ev)), ev.be)
           /\ Frame(ev, live + oc.dl)
           /\ live' = live + oc.dl
           /\ IF o < 0 THEN UNCHANGED ctr
              ELSE ctr' = [ctr EXCEPT ![kind][o] =
                              [life |-> oc.life,
                               be |-> IF oc.ret = 1 THEN ev.be ELSE "gen",
                               key |-> KeyNone(kind), pos |-> PosInit(BS(kind)), csz |-> BS(kind),
                               own |-> oc.dl]]
    /\ UNCHANGED <<env, ks, tks, mks, par>>

(* cleanup: releases what the object owns exactly once, wiped (C17); no-op otherwise *)
TCtrCleanup ==
    /\ IsEvent("ctr_cleanup")
    /\ LET ev == Ev  kind == ev.k  o == ev.o
           islive == o >= 0 /\ ctr[kind][o].life = "live"
       IN  /\ Chk("non-zero bytes in released memory", 0, ev.nz)
           /\ Frame(ev, IF islive THEN live - ctr[kind][o].own ELSE live)
           /\ live' = IF islive THEN live - ctr[kind][o].own ELSE live
           /\ IF islive
              THEN ctr' = [ctr EXCEPT ![kind][o] = [CtrZeroed(kind) EXCEPT !.life = "dead"]]
              ELSE UNCHANGED ctr
    /\ UNCHANGED <<env, ks, tks, mks, par>>

CtrLive(kind, o) == o >= 0 /\ ctr[kind][o].life = "live"

TCtrSetKey ==
    /\ IsEvent("ctr_set_key")
    /\ LET ev == Ev  kind == ev.k  o == ev.o
           valid == /\ CtrLive(kind, o) /\ ev.key_null = 0
                    /\ ValidKeyLen(kind, FALSE, ev.len)
                    /\ (kind = "mantis" => ValidMantisRounds(ev.nr))
       IN  /\ Chk("ctr_set_key ret", IF valid THEN 1 ELSE 0, ev.ret)
           /\ IF valid
              THEN ctr' = [ctr EXCEPT ![kind][o].key =
                                IF kind = "mantis"
                                THEN [kd |-> "mantis", key |-> ev.key, mode |-> "enc",
                                      tw |-> ZeroSeq(8), r |-> ev.nr]
                                ELSE PlainKeyT(kind, ev.key, ev.len, ctr[kind][o].key.tw),
                              ![kind][o].pos = PosRekeyW(256, @, ctr[kind][o].csz)]
              ELSE UNCHANGED ctr
           /\ NoHeap(ev)
    /\ UNCHANGED <<env, ks, tks, mks, par>>

TCtrSetTweakedKey ==
    /\ IsEvent("ctr_set_tweaked_key")
    /\ LET ev == Ev  kind == ev.k  o == ev.o
           valid == /\ CtrLive(kind, o) /\ ev.key_null = 0 /\ kind # "mantis"
                    /\ ValidKeyLen(kind, TRUE, ev.len)
       IN  /\ Chk("ctr_set_tweaked_key ret", IF valid THEN 1 ELSE 0, ev.ret)
           /\ IF valid
              THEN ctr' = [ctr EXCEPT ![kind][o].key =
                                TweakedKey(kind, PadKey(kind, ev.key, ev.len), ZeroSeq(BS(kind))),
                              ![kind][o].pos = PosRekeyW(256, @, ctr[kind][o].csz)]
              ELSE UNCHANGED ctr
           /\ NoHeap(ev)
    /\ UNCHANGED <<env, ks, tks, mks, par>>

(* tweak change through the CTR API: same history-independent meaning *)
TCtrSetTweak ==
    /\ IsEvent("ctr_set_tweak")
    /\ LET ev == Ev  kind == ev.k  o == ev.o
           valid == CtrLive(kind, o) /\ ValidTweakLen(kind, ev.len)
           tw    == PadTweak(kind, ev.tweak, ev.len, ev.tweak_null = 1)
       IN  /\ Chk("ctr_set_tweak ret", IF valid THEN 1 ELSE 0, ev.ret)
           /\ IF valid
              THEN LET old == ctr[kind][o].key
                       new == CASE old.kd = "tweaked" -> TweakedKey(kind, old.pkey, tw)
                                [] old.kd = "mantis"  -> [old EXCEPT !.tw = tw]
                                [] old.kd = "none"    -> [old EXCEPT !.tw = tw]
                                   \* never keyed: only the slot changes (0 rounds; Mantis' 0-round cipher uses it)
                                [] old.kd = "plain"   ->
                                   \* implementation-defined corner, modelled as what the code does: the
                                   \* incremental update (old slot out, new tweak in) on a plain schedule
                                   [old EXCEPT !.tw = tw,
                                               !.adds = XorAdds(XorAdds(@, Tk1Contrib(CW(kind), old.tw, Len(@))),
                                                                Tk1Contrib(CW(kind), tw, Len(@)))]
                   IN ctr' = [ctr EXCEPT ![kind][o].key = new,
                                         ![kind][o].pos = PosRekeyW(256, @, ctr[kind][o].csz)]
              ELSE UNCHANGED ctr
           /\ NoHeap(ev)
    /\ UNCHANGED <<env, ks, tks, mks, par>>

TCtrSetCounter ==
    /\ IsEvent("ctr_set_counter")
    /\ LET ev == Ev  kind == ev.k  o == ev.o
           valid == CtrLive(kind, o) /\ ValidCounterLen(kind, ev.len)
       IN  /\ Chk("ctr_set_counter ret", IF valid THEN 1 ELSE 0, ev.ret)
           /\ IF valid
              THEN ctr' = [ctr EXCEPT ![kind][o].pos =
                               PosSetCounter(PadCounter(kind, ev.ctr, ev.len, ev.ctr_null = 1))]
              ELSE UNCHANGED ctr
           /\ NoHeap(ev)
    /\ UNCHANGED <<env, ks, tks, mks, par>>

(* The stream law (C05): output byte i = input byte i xor byte             *)
(* (j+i) mod bs of E(c + (j+i) div bs).  No call boundary, no batch size    *)
(* and no back end occurs in it.                                            *)
CtrStream(kind, key, rr, pos, n, w) ==
    LET bs  == BS(kind)
        nb  == PosBlocksTouched(bs, pos, n)
        blk == [b \in 1..nb |-> KeyEnc(kind, key, rr, AddBEW(256, pos[1], b - 1, w))]
        ksq == SubSeq(blk, 1, nb)      \* force evaluation once
    IN  [i \in 1..n |-> ksq[PosBlockOf(bs, pos, i - 1) + 1][PosByteOf(bs, pos, i - 1) + 1]]

TCtrEncrypt ==
    /\ IsEvent("ctr_encrypt")
    /\ LET ev == Ev  kind == ev.k  o == ev.o
           valid == CtrLive(kind, o) /\ ev.in_null = 0 /\ ev.outnull = 0
       IN  /\ Chk("ctr_encrypt ret", IF valid THEN 1 ELSE 0, ev.ret)
           /\ IF valid
              THEN LET st  == ctr[kind][o]
                       n   == ev.n
                       str == CtrStream(kind, st.key, RR(ev), st.pos, n, st.csz)
                       exp == SubSeq([i \in 1..n |-> ev.in[i] ^^ str[i]], 1, n)
                   IN  /\ Chk("ctr_encrypt output", exp, ev.out)
                       /\ ctr' = [ctr EXCEPT ![kind][o].pos = PosAdvanceW(256, BS(kind), @, n, st.csz)]
              ELSE UNCHANGED ctr
           /\ NoHeap(ev)
    /\ UNCHANGED <<env, ks, tks, mks, par>>

(* A request of gib * 2^30 + rem bytes (lengths beyond 32 bits; the numbers *)
(* are split because TLC integers are 32-bit).  The input is all-zero, so   *)
(* the output IS the key stream; the trace carries whole blocks of it at    *)
(* block indices chosen by the scenario (first, around the 4 GiB boundary,  *)
(* last) and the final bytes.  Block i of the request is stream block       *)
(* i + (j div bs) from the counter, read from byte j on.                    *)
HugeBlocks(kind, gib, rem) == gib * ((1024 * 1024 * 1024) \div BS(kind)) + rem \div BS(kind)

(* len <= bs stream bytes starting at byte `byte` of stream block `block` (counted from c) *)
StreamAt(kind, key, rr, c, w, block, byte, len) ==
    LET two == KeyEnc(kind, key, rr, AddBEW(256, c, block, w)) \o
               KeyEnc(kind, key, rr, AddBEW(256, c, block + 1, w))
    IN  SubSeq(two, byte + 1, byte + len)

TCtrHuge ==
    /\ IsEvent("ctr_huge")
    /\ LET ev == Ev  kind == ev.k  o == ev.o  bs == BS(kind)
           valid == CtrLive(kind, o)
       IN  /\ Chk("ctr_huge ret", IF valid THEN 1 ELSE 0, ev.ret)
           /\ IF valid
              THEN LET st   == ctr[kind][o]
                       c    == st.pos[1]
                       j    == st.pos[2]
                       nblk == HugeBlocks(kind, ev.gib, ev.rem)     \* whole blocks in the request
                       r    == ev.rem % bs                          \* total = nblk * bs + r
                       \* the last ev.tail (<= bs) bytes start at stream offset j + nblk*bs + r - tail
                       q    == j + r - ev.tail + bs                 \* >= 0
                   IN  /\ \A x \in 1..Len(ev.samples) :
                              Chk("ctr_huge key stream block",
                                  StreamAt(kind, st.key, RR(ev), c, st.csz, ev.samples[x].i, j, bs), ev.samples[x].b)
                       /\ ev.tail > 0 =>
                              Chk("ctr_huge last bytes",
                                  StreamAt(kind, st.key, RR(ev), c, st.csz, nblk - 1 + q \div bs, q % bs, ev.tail), ev.tailb)
                       /\ ctr' = [ctr EXCEPT ![kind][o].pos =
                                      << AddBEW(256, c, nblk + (j + r) \div bs, st.csz), (j + r) % bs >>]
              ELSE UNCHANGED ctr
           /\ NoHeap(ev)
    /\ UNCHANGED <<env, ks, tks, mks, par>>

----------------------------------------------------------------------------
(* Parallel ECB objects (C07, C03, C13)                                    *)

TParInit ==
    /\ IsEvent("par_init")
    /\ LET ev == Ev  kind == ev.k  o == ev.o
           oc == InitOutcome(ev, kind, IF o < 0 THEN "none" ELSE par[kind][o].life)
       IN  /\ o >= 0 => MayInit(par[kind][o].life)
           /\ Chk("par_init ret", oc.ret, ev.ret)
           /\ oc.ret = 1 => /\ Chk("selected back end", Widest(env, kind, CapOf(ev)), ev.be)
                            /\ Chk("parallel size", ParSize(kind, ev.be), ev.psize)
           /\ Frame(ev, live + oc.dl)
           /\ live' = live + oc.dl
           /\ IF o < 0 THEN UNCHANGED par
              ELSE par' = [par EXCEPT ![kind][o] =
                              [life |-> oc.life,
                               be |-> IF oc.ret = 1 THEN ev.be ELSE "gen",
                               key |-> KeyNone(kind), own |-> oc.dl]]
    /\ UNCHANGED <<env, ks, tks, mks, ctr>>

TParCleanup ==
    /\ IsEvent("par_cleanup")
    /\ LET ev == Ev  kind == ev.k  o == ev.o
           islive == o >= 0 /\ par[kind][o].life = "live"
       IN  /\ Chk("non-zero bytes in released memory", 0, ev.nz)
           /\ Frame(ev, IF islive THEN live - par[kind][o].own ELSE live)
           /\ live' = IF islive THEN live - par[kind][o].own ELSE live
           /\ IF islive
              THEN par' = [par EXCEPT ![kind][o] = [ParZeroed(kind) EXCEPT !.life = "dead"]]
              ELSE UNCHANGED par
    /\ UNCHANGED <<env, ks, tks, mks, ctr>>

ParLive(kind, o) == o >= 0 /\ par[kind][o].life = "live"

TParSetKey ==
    /\ IsEvent("par_set_key")
    /\ LET ev == Ev  kind == ev.k  o == ev.o
           valid == /\ ParLive(kind, o) /\ ev.key_null = 0
                    /\ ValidKeyLen(kind, FALSE, ev.len)
                    /\ (kind = "mantis" => ValidMantisRounds(ev.nr))
       IN  /\ Chk("par_set_key ret", IF valid THEN 1 ELSE 0, ev.ret)
           /\ IF valid
              THEN par' = [par EXCEPT ![kind][o].key =
                                IF kind = "mantis"
                                THEN [kd |-> "mantis", key |-> ev.key,
                                      mode |-> IF ev.mode = 1 THEN "enc" ELSE "dec",
                                      tw |-> ZeroSeq(8), r |-> ev.nr]
                                ELSE PlainKey(kind, ev.key, ev.len)]
              ELSE UNCHANGED par
           /\ NoHeap(ev)
    /\ UNCHANGED <<env, ks, tks, mks, ctr>>

TParSwap ==
    /\ IsEvent("par_swap")
    /\ LET ev == Ev  o == ev.o
       IN  /\ IF ParLive("mantis", o) /\ par["mantis"][o].key.kd = "mantis"
              THEN par' = [par EXCEPT !["mantis"][o].key.mode = IF @ = "enc" THEN "dec" ELSE "enc"]
              ELSE /\ ~ParLive("mantis", o)      \* swap on a live unkeyed object is not modelled
                   /\ UNCHANGED par
           /\ NoHeap(ev)
    /\ UNCHANGED <<env, ks, tks, mks, ctr>>

(* C07: the parallel functions are the map of the single-block function *)
ParMap(kind, key, rr, enc, data, n, tweaks) ==
    LET bs == BS(kind)
        nb == n \div bs
        blkin(b) == SubSeq(data, (b-1)*bs + 1, b*bs)
        one(b) == IF kind = "mantis" THEN KeyMantisTw(key, rr, SubSeq(tweaks, (b-1)*8 + 1, b*8), blkin(b))
                  ELSE IF enc THEN KeyEnc(kind, key, rr, blkin(b))
                  ELSE KeyDec(kind, key, rr, blkin(b))
        step(acc, b) == acc \o one(b)
    IN  FoldLeft(step, <<>>, [b \in 1..nb |-> b])

ParCrypt(name, enc) ==
    /\ IsEvent(name)
    /\ LET ev == Ev  kind == ev.k  o == ev.o
           valid == ParLive(kind, o) /\ ev.n % BS(kind) = 0
       IN  /\ Chk(name \o " ret", IF valid THEN 1 ELSE 0, ev.ret)
           /\ valid => Chk(name \o " output",
                           ParMap(kind, par[kind][o].key, RR(ev), enc, ev.in, ev.n,
                                  IF Has(ev, "tweak") THEN ev.tweak ELSE <<>>), ev.out)
           /\ NoHeap(ev)
    /\ UNCHANGED <<env, ks, tks, mks, ctr, par>>

(* a request beyond 32 bits of length in which every input block (and every tweak) is the   *)
(* same value: every output block is the single-block result; ev.diff counts the others      *)
TParHuge ==
    /\ IsEvent("par_huge")
    /\ LET ev == Ev  kind == ev.k  o == ev.o
           valid == ParLive(kind, o) /\ ev.rem % BS(kind) = 0
       IN  /\ Chk("par_huge ret", IF valid THEN 1 ELSE 0, ev.ret)
           /\ valid => /\ Chk("par_huge first output block",
                               ParMap(kind, par[kind][o].key, RR(ev), ev.enc = 1, ev.in, BS(kind),
                                      IF Has(ev, "tweak") THEN ev.tweak ELSE <<>>), ev.out0)
                        /\ Chk("par_huge blocks that differ from the first", 0, ev.diff)
           /\ NoHeap(ev)
    /\ UNCHANGED <<env, ks, tks, mks, ctr, par>>

TParEncrypt == ParCrypt("par_encrypt", TRUE)
TParDecrypt == ParCrypt("par_decrypt", FALSE)
TParCryptM  == ParCrypt("par_crypt", TRUE)

----------------------------------------------------------------------------
TraceNext ==
    \/ TEnv \/ TCpu \/ TLayout \/ TReset \/ TQuiesce \/ TShare \/ TStaticData
    \/ TKsSetKey \/ TKsSetKeyInner \/ TKsSetTweakedKey \/ TKsSetTweak \/ TKsEnc \/ TKsDec
    \/ TMkSetKey \/ TMkSetTweak \/ TMkSwap \/ TMkCrypt \/ TMkCryptTw
    \/ TCtrInit \/ TCtrCleanup \/ TCtrSetKey \/ TCtrSetTweakedKey \/ TCtrSetTweak
    \/ TCtrSetCounter \/ TCtrEncrypt \/ TCtrHuge \/ TParHuge
    \/ TParInit \/ TParCleanup \/ TParSetKey \/ TParSwap
    \/ TParEncrypt \/ TParDecrypt \/ TParCryptM

TraceSpec == TraceInit /\ [][TraceNext]_vars

(* one state per consumed line plus the initial state *)
TraceAccepted ==
    LET d == TLCGet("stats").diameter
    IN  IF d - 1 = Len(TraceLog) THEN TRUE
        ELSE PrintT(<<"REJECTED: lines consumed", d - 1, "of", Len(TraceLog)>>) /\ FALSE

ASSUME SkinnySelfCheck
ASSUME MantisSelfCheck
=============================================================================
