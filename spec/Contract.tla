------------------------------ MODULE Contract ------------------------------
(***************************************************************************)
(* The data-independent part of the skinny-c API contract, as pure         *)
(* operators.  This module is the single source of truth shared by         *)
(*   - SkinnyTrace (trace validation of the real library, real ciphers),   *)
(*   - the design-level models MC_Ctr, MC_Life, MC_Tweak, MC_Mode, MC_Par, *)
(*     MC_Probe, MC_Mem ... (TLC, exhaustive, small constants), which      *)
(*     check that implementation-shaped models refine these operators.     *)
(* Nothing here mentions a back end: that absence is property C06.         *)
(***************************************************************************)
EXTENDS Naturals, Integers, Sequences, SequencesExt, FiniteSets

Kinds == {"s128", "s64", "mantis"}
BS(kind) == IF kind = "s128" THEN 16 ELSE 8

Zeros(n) == [i \in 1..n |-> 0]
ZeroSeq(n) == SubSeq([i \in 1..(n+1) |-> 0], 1, n)

----------------------------------------------------------------------------
(* Key, tweak and counter lengths (C10, C14)                               *)

(* SKINNY: bs..3bs for plain keys, bs..2bs for tweakable ones *)
ValidKeyLen(kind, tweaked, len) ==
    IF kind = "mantis" THEN len = 16
    ELSE /\ len >= BS(kind)
         /\ len <= (IF tweaked THEN 2 ELSE 3) * BS(kind)

ValidMantisRounds(nr) == nr >= 5 /\ nr <= 8

(* tweak lengths: 1..bs for SKINNY (short = zero-extended), exactly 8 for MANTIS *)
ValidTweakLen(kind, len) ==
    IF kind = "mantis" THEN len = 8 ELSE len >= 1 /\ len <= BS(kind)

ValidCounterLen(kind, len) == len >= 0 /\ len <= BS(kind)

(* number of tweakey blocks a key of this length denotes *)
KeyBlocks(kind, len) == (len + BS(kind) - 1) \div BS(kind)

(* a key of an accepted length means: the same bytes padded with zeros to   *)
(* the next primary size                                                    *)
PadKey(kind, key, len) ==
    LET n == KeyBlocks(kind, len) * BS(kind)
    IN  SubSeq(key, 1, len) \o ZeroSeq(n - len)

(* a short tweak means: the same bytes followed by zeros; null means zero   *)
PadTweak(kind, tw, len, isnull) ==
    IF isnull THEN ZeroSeq(BS(kind))
    ELSE SubSeq(tw, 1, len) \o ZeroSeq(BS(kind) - len)

(* a short counter is left-padded with zeros; null means zero               *)
PadCounter(kind, c, len, isnull) ==
    IF isnull THEN ZeroSeq(BS(kind))
    ELSE ZeroSeq(BS(kind) - len) \o SubSeq(c, 1, len)

----------------------------------------------------------------------------
(* Counter arithmetic: big-endian addition modulo radix^n                   *)

AddBE(radix, c, n) ==
    LET step(acc, i) ==
            LET idx == Len(c) + 1 - i
                v   == c[idx] + acc[1]
            IN  << v \div radix, [acc[2] EXCEPT ![idx] = v % radix] >>
    IN  FoldLeft(step, <<n, c>>, [i \in 1..Len(c) |-> i])[2]

(* increment confined to the low w digits, the digits above stay as they are  *)
(* (w = Len(c) is AddBE; the Arduino CTR wrapper lets the caller choose w)    *)
AddBEW(radix, c, n, w) ==
    IF w >= Len(c) THEN AddBE(radix, c, n)
    ELSE SubSeq(c, 1, Len(c) - w) \o AddBE(radix, SubSeq(c, Len(c) - w + 1, Len(c)), n)

----------------------------------------------------------------------------
(* CTR stream position (C05).  A position is <<c, j>>: the next keystream   *)
(* byte is byte j (0-based) of E(c); j = 0 means block c is not started.    *)

PosInit(bs) == << ZeroSeq(bs), 0 >>

PosSetCounter(c) == << c, 0 >>

(* a successful key or tweak change abandons the rest of a started block    *)
PosRekey(radix, pos) ==
    IF pos[2] = 0 THEN pos ELSE << AddBE(radix, pos[1], 1), 0 >>

PosAdvance(radix, bs, pos, n) ==
    << AddBE(radix, pos[1], (pos[2] + n) \div bs), (pos[2] + n) % bs >>

(* the same with a counter of w digits (the rest of the block is a fixed prefix) *)
PosRekeyW(radix, pos, w) ==
    IF pos[2] = 0 THEN pos ELSE << AddBEW(radix, pos[1], 1, w), 0 >>
PosAdvanceW(radix, bs, pos, n, w) ==
    << AddBEW(radix, pos[1], (pos[2] + n) \div bs, w), (pos[2] + n) % bs >>

(* the counter block whose encryption provides stream byte i (0-based) of a *)
(* request starting at pos, and the byte index inside it                    *)
PosBlockOf(bs, pos, i) == (pos[2] + i) \div bs
PosByteOf(bs, pos, i)  == (pos[2] + i) % bs

(* number of distinct counter blocks a request of n bytes touches           *)
PosBlocksTouched(bs, pos, n) == IF n = 0 THEN 0 ELSE (pos[2] + n + bs - 1) \div bs

----------------------------------------------------------------------------
(* Object life cycle (C15, C16).                                            *)
(*  "zeroed"  caller-zeroed, never initialised                              *)
(*  "raw"     arbitrary caller garbage, never initialised                   *)
(*  "live"    initialised, owns exactly one heap block                      *)
(*  "failed"  init reported failure (must behave exactly like "dead")       *)
(*  "dead"    cleaned up                                                    *)

Lives == {"zeroed", "raw", "live", "failed", "dead"}
Inert(life) == life \in {"zeroed", "failed", "dead"}
MayInit(life) == life # "live"          \* re-init of a live object is a caller error (leak)

----------------------------------------------------------------------------
(* Back-end selection (C13) and the advertised parallel size (C07).         *)
(* env: [sse2, avx2, built128, built256] as 0/1; cap: 0,1,2 (hook H2).      *)

BackEnds == {"gen", "v128", "v256"}

Widest(env, kind, cap) ==
    IF kind = "s128" /\ env.avx2 = 1 /\ env.built256 = 1 /\ cap >= 2 THEN "v256"
    ELSE IF env.sse2 = 1 /\ env.built128 = 1 /\ cap >= 1 THEN "v128"
    ELSE "gen"

(* CTR batch, in blocks *)
CtrBatch(kind, be) ==
    IF be = "gen" THEN 1
    ELSE IF kind = "s128" THEN (IF be = "v256" THEN 8 ELSE 4)
    ELSE 8

(* advertised parallel size in bytes: positive multiple of the block size,  *)
(* a function of kind and back end only                                     *)
ParSize(kind, be) == IF kind = "s128" /\ be = "v256" THEN 128 ELSE 64

=============================================================================
