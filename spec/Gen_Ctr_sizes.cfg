SPECIFICATION Spec
CONSTANT KS = {1, 2, 3}
CHECK_DEADLOCK FALSE
