SPECIFICATION Spec
CONSTANT TrackPrev = FALSE
CONSTANT KS = {1, 2, 3}
CHECK_DEADLOCK FALSE
