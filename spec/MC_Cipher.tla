------------------------------ MODULE MC_Cipher ------------------------------
(***************************************************************************)
(* Algebraic laws of the reference ciphers, checked exhaustively by TLC    *)
(* where the component domain is small and on a deterministic sample       *)
(* otherwise.  They carry the "round trip" half of C03: decryption inverts *)
(* encryption in the SPECIFICATION, so code that conforms to the           *)
(* specification in both directions (C01, C02, C07) round-trips.           *)
(*                                                                         *)
(* Every x in 0..N-1 is an initial state; the invariant checks the laws for *)
(* the x-th element of each domain (so TLC's workers share the work).      *)
(***************************************************************************)
EXTENDS MantisSpec

CONSTANTS N

VARIABLE x
Init == x \in 0..(N - 1)
Next == UNCHANGED x
Spec == Init /\ [][Next]_x

(* the x-th 4-tuple of 4-bit values: one column of a 4-bit-cell state *)
Col4(v) == << v % 16, (v \div 16) % 16, (v \div 256) % 16, (v \div 4096) % 16 >>
ColState(c) == << c[1], 0, 0, 0,  c[2], 0, 0, 0,  c[3], 0, 0, 0,  c[4], 0, 0, 0 >>

(* a deterministic pseudo-random byte stream (LCG), for sampled laws *)
Lcg(s) == (s * 75 + 74) % 65537          \* stays far below TLC's 32-bit integers
Bytes(seed, n) ==
    LET step(acc, i) == << Append(acc[1], (acc[2] \div 7) % 256), Lcg(acc[2]) >>
    IN  FoldLeft(step, << <<>>, Lcg((seed * 31 + 1) % 65537) >>, [i \in 1..n |-> i])[1]
Cells8(seed) == Bytes(seed, 16)

(* ---- exhaustive over one 4-bit column (65536 values): x ranges over them ---- *)
MixInverse4 ==
    LET s == ColState(Col4(x % 65536)) IN MixInv(Mix(s)) = s /\ Mix(MixInv(s)) = s
MantisMixInvolution4 ==
    LET s == ColState(Col4(x % 65536)) IN MMix(MMix(s)) = s

(* ---- 8-bit cells: linear maps, so a basis plus linearity on samples ---- *)
MixInverse8 ==
    LET s == Cells8(x) IN MixInv(Mix(s)) = s /\ Mix(MixInv(s)) = s
MixLinear8 ==
    LET a == Cells8(x)  b == Cells8(x + 7777)
    IN  Mix(Xor16(a, b)) = Xor16(Mix(a), Mix(b))

(* ---- permutations ---- *)
Iter(p, s, k) == FoldLeft(LAMBDA acc, i : Perm16(acc, p), s, [i \in 1..k |-> i])
Ident16 == <<0, 1, 2, 3, 4, 5, 6, 7, 8, 9, 10, 11, 12, 13, 14, 15>>
PermLaws ==
    /\ Iter(PT, Ident16, 16) = Ident16          \* the tweakey permutation has period 16
    /\ Perm16(Perm16(Ident16, SR), SRinv) = Ident16
    /\ Perm16(Perm16(Ident16, MP), MPinv) = Ident16
    /\ Perm16(Perm16(Ident16, MH), MHinv) = Ident16

(* ---- LFSRs: inverse of each other, and of full period on non-zero cells ---- *)
LfsrLaws ==
    /\ \A v \in 0..15  : L3T4[L2T4[v+1]+1] = v /\ L2T4[L3T4[v+1]+1] = v
    /\ \A v \in 0..255 : L3T8[L2T8[v+1]+1] = v /\ L2T8[L3T8[v+1]+1] = v

(* ---- the round function and its inverse, on sampled states and round additions ---- *)
RoundInverse ==
    LET s8 == Cells8(x)  a8 == Cells8(x + 31)
        s4 == CellsOf(4, Bytes(x, 8))  a4 == CellsOf(4, Bytes(x + 31, 8))
    IN  /\ SkInvRound(8, SkRound(8, s8, a8), a8) = s8
        /\ SkRound(8, SkInvRound(8, s8, a8), a8) = s8
        /\ SkInvRound(4, SkRound(4, s4, a4), a4) = s4
        /\ SkRound(4, SkInvRound(4, s4, a4), a4) = s4

(* ---- whole ciphers, every variant, on a sample that moves with x (cheap: reduced rounds are   *)
(* covered by RoundInverse; full rounds on every 64th x) ---- *)
CipherInverse ==
    (x % 64 = 0) =>
        LET z   == 1 + ((x \div 64) % 3)
            k8  == Bytes(x + 1, 16 * z)   b8 == Bytes(x + 2, 16)
            k4  == Bytes(x + 3, 8 * z)    b4 == Bytes(x + 4, 8)
            mk  == Bytes(x + 5, 16)       mt == Bytes(x + 6, 8)   mb == Bytes(x + 7, 8)
            r   == 5 + ((x \div 64) % 4)
        IN  /\ SkinnyDec(8, k8, SkinnyEnc(8, k8, b8)) = b8
            /\ SkinnyEnc(8, k8, SkinnyDec(8, k8, b8)) = b8
            /\ SkinnyDec(4, k4, SkinnyEnc(4, k4, b4)) = b4
            /\ SkinnyEnc(4, k4, SkinnyDec(4, k4, b4)) = b4
            /\ (z <= 2 => SkinnyTDec(8, k8, b8, SkinnyTEnc(8, k8, b8, Bytes(x + 9, 16))) = Bytes(x + 9, 16))
            /\ MantisDec(r, mk, mt, MantisEnc(r, mk, mt, mb)) = mb
            /\ MantisEnc(r, mk, mt, MantisDec(r, mk, mt, mb)) = mb

Laws == /\ MixInverse4 /\ MantisMixInvolution4 /\ MixInverse8 /\ MixLinear8
        /\ RoundInverse /\ CipherInverse
        /\ (x = 0 => PermLaws /\ LfsrLaws /\ SkinnySelfCheck /\ MantisSelfCheck)
=============================================================================
