------------------------------ MODULE MC_KeyLen ------------------------------
(***************************************************************************)
(* Design-level model of key-length handling (C10): which lengths each     *)
(* key-setting entry point accepts, and what tweakey a partial last block  *)
(* denotes.  The partial load is modelled word by word as the code does it *)
(* (ROWS rows of WB bytes; whole words while they fit, then a byte-wise    *)
(* tail of up to WB-1 bytes, rows beyond the key left as they were in the  *)
(* local variable).  Key bytes are symbolic and non-zero (byte i = i), the *)
(* local variable starts as garbage (-1) .  Invariant: accepted iff the    *)
(* documented range; the loaded tweakey equals the zero-padded key; a      *)
(* rejected call leaves the object unchanged.                              *)
(* Shipped = TRUE models the pinned tree: the word is truncated to 16 bits *)
(* and unassigned rows keep garbage (defect D4) -- must fail.              *)
(***************************************************************************)
EXTENDS Contract, TLC

CONSTANTS ROWS, WB, MaxExtra, Shipped

BSZ == ROWS * WB

VARIABLES done, entry, len, prior, state, ret
vars == <<done, entry, len, prior, state, ret>>

Entries == {"plain", "tweaked"}
MaxBlocks(e) == IF e = "plain" THEN 3 ELSE 2
Valid(e, n) == n >= BSZ /\ n <= MaxBlocks(e) * BSZ

KeyByte(i) == i          \* symbolic non-zero key bytes 1..len
Garbage == 0 - 1         \* what an unassigned local holds (an integer, so that every comparison is well-typed)

(* load one tweakey block from key bytes off+1..off+n (n <= BSZ) *)
LoadBlock(off, n) ==
    IF n >= BSZ THEN [i \in 1..BSZ |-> KeyByte(off + i)]
    ELSE LET rowval(r) ==     \* r = 0..ROWS-1
                 LET idx == r * WB
                 IN  IF idx >= n THEN (IF Shipped THEN [j \in 1..WB |-> Garbage] ELSE [j \in 1..WB |-> 0])
                     ELSE IF idx + WB <= n
                     THEN [j \in 1..WB |-> IF Shipped /\ j > 2 THEN 0 ELSE KeyByte(off + idx + j)]
                     ELSE [j \in 1..WB |-> IF idx + j <= n /\ j < WB /\ ~(Shipped /\ j > 2)
                                           THEN KeyByte(off + idx + j) ELSE 0]
         IN  [i \in 1..BSZ |-> rowval((i - 1) \div WB)[((i - 1) % WB) + 1]]

(* the tweakey an accepted key of length n denotes in the implementation *)
Loaded(n) ==
    LET nb == (n + BSZ - 1) \div BSZ
    IN  [b \in 1..nb |-> LoadBlock((b - 1) * BSZ, IF b * BSZ <= n THEN BSZ ELSE n - (b - 1) * BSZ)]

(* ... and in the contract: the same bytes padded with zeros *)
Padded(n) ==
    LET nb == (n + BSZ - 1) \div BSZ
    IN  [b \in 1..nb |-> [i \in 1..BSZ |-> IF (b - 1) * BSZ + i <= n THEN KeyByte((b - 1) * BSZ + i) ELSE 0]]

Lens == 0..(3 * BSZ + MaxExtra) \cup {2147483647}

Init == /\ done = FALSE /\ entry \in Entries /\ len \in Lens /\ prior \in {"unset", "set"}
        /\ state = prior /\ ret = -1

SetKey ==
    /\ ~done /\ done' = TRUE
    /\ IF Valid(entry, len)
       THEN ret' = 1 /\ state' = Loaded(len)
       ELSE ret' = 0 /\ state' = state
    /\ UNCHANGED <<entry, len, prior>>

Next == SetKey
Spec == Init /\ [][Next]_vars

KeyLenLaw ==
    done => IF Valid(entry, len) THEN ret = 1 /\ state = Padded(len)
            ELSE ret = 0 /\ state = prior
=============================================================================
