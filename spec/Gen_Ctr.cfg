SPECIFICATION Spec
CONSTANT TrackPrev = TRUE
CONSTANT KS = {1}
CHECK_DEADLOCK FALSE
