SPECIFICATION Spec
CONSTANTS
  BSZ = 2
  PSizes = {4, 8, 16}
  MaxBytes = 131
  LenBits = 5
  Variant = "ok"
INVARIANT MapLaw
CHECK_DEADLOCK FALSE
