------------------------------ MODULE MC_Tools ------------------------------
(***************************************************************************)
(* Design-level model of the example tools (C20):                          *)
(* (1) the option classifier of examples/options.c over abstract argv, the *)
(*     options in EVERY order (a left-to-right pass, then validation) --   *)
(*     Run iff every documented condition holds, whatever the order;      *)
(* (2) the chunked read/process/write loops: processing a file in chunks   *)
(*     of CHUNK bytes equals processing it whole -- same length for the    *)
(*     stream tool, all whole blocks (tail dropped) for the block tools -- *)
(*     which holds because CHUNK is a multiple of the block size; a chunk  *)
(*     size that is not (negative config) must fail.                       *)
(***************************************************************************)
EXTENDS Naturals, Sequences, FiniteSets, TLC

CONSTANTS CHUNK, BSZ, MaxLen, Variant

VARIABLES phase, tool, argvseq, keyst, keylen, twst, twlen, nfiles, flen, verdict, outlen
vars == <<phase, tool, argvseq, keyst, keylen, twst, twlen, nfiles, flen, verdict, outlen>>

Tools == {"ctr", "tweak", "ecb"}
HexSt == {"ok", "nonhex", "empty"}

(* argv: the options in the order given; -b may occur more than once.  Every     *)
(* sequence without repetition over these tokens (options may also be absent).   *)
Tokens == {"b64", "b128", "bbad", "k", "t"}
Argvs == UNION {{s \in [1..n -> Tokens] : \A i, j \in 1..n : i # j => s[i] # s[j]} : n \in 0..4}

Has(a, t) == \E i \in 1..Len(a) : a[i] = t
LastB(a) ==     \* the block size in force after all options have been read
    LET idx == {i \in 1..Len(a) : a[i] \in {"b64", "b128"}}
    IN  IF idx = {} THEN 16
        ELSE LET m == CHOOSE i \in idx : \A j \in idx : j <= i IN IF a[m] = "b64" THEN 8 ELSE 16

(* documented conditions -- they speak about the options as a set, never about their order *)
Documented ==
    /\ ~Has(argvseq, "bbad")
    /\ Has(argvseq, "k") /\ keyst = "ok"
    /\ (Has(argvseq, "t") => twst = "ok")
    /\ nfiles >= 2
    /\ LET bs == LastB(argvseq)
           maxk == IF tool = "tweak" THEN 2 * bs ELSE 3 * bs
       IN  keylen >= bs /\ keylen <= maxk /\ (Has(argvseq, "t") => twlen <= bs)

(* parse_options as the code performs it: a left-to-right pass over the options  *)
(* that only records values (Variant "inloop": the counter/tweak length is       *)
(* checked inside the pass against the block size in force AT THAT POINT, and    *)
(* not again afterwards -- the deliberately wrong variant), then validation.     *)
RECURSIVE Pass(_, _, _)
Pass(a, i, st) ==      \* st = [bs, fail]
    IF i > Len(a) \/ st.fail THEN st
    ELSE LET t == a[i]
         IN  CASE t = "b64"  -> Pass(a, i + 1, [st EXCEPT !.bs = 8])
               [] t = "b128" -> Pass(a, i + 1, [st EXCEPT !.bs = 16])
               [] t = "bbad" -> [st EXCEPT !.fail = TRUE]
               [] t = "k"    -> IF keyst # "ok" THEN [st EXCEPT !.fail = TRUE] ELSE Pass(a, i + 1, st)
               [] t = "t"    -> IF twst # "ok" THEN [st EXCEPT !.fail = TRUE]
                                ELSE IF Variant = "inloop" /\ twlen > st.bs THEN [st EXCEPT !.fail = TRUE]
                                ELSE Pass(a, i + 1, st)

Classifier ==
    LET st == Pass(argvseq, 1, [bs |-> 16, fail |-> FALSE])
    IN  IF st.fail THEN "Exit1"
        ELSE IF nfiles < 2 THEN "Exit1"
        ELSE IF ~Has(argvseq, "k") THEN "Exit1"
        ELSE IF tool = "tweak" /\ (keylen < st.bs \/ keylen > 2 * st.bs) THEN "Exit1"
        ELSE IF tool # "tweak" /\ (keylen < st.bs \/ keylen > 3 * st.bs) THEN "Exit1"
        ELSE IF Variant # "inloop" /\ Has(argvseq, "t") /\ twlen > st.bs THEN "Exit1"
        ELSE "Run"

(* chunk loop: returns number of bytes written *)
RECURSIVE Loop(_, _)
Loop(left, written) ==
    IF left = 0 THEN written
    ELSE LET rd == IF left >= CHUNK THEN CHUNK ELSE left
             wr == IF tool = "ctr" THEN rd ELSE rd - (rd % BSZ)
         IN  Loop(left - rd, written + wr)

Init ==
    /\ phase = "start" /\ tool \in Tools /\ argvseq \in Argvs /\ keyst \in HexSt
    /\ keylen \in {7, 8, 16, 17, 24, 32, 33, 48, 49} /\ twst \in HexSt /\ twlen \in {1, 8, 9, 16}
    /\ nfiles \in 1..2 /\ flen \in {0} /\ verdict = "none" /\ outlen = 0

Classify ==
    /\ phase = "start" /\ phase' = "classified"
    /\ verdict' = Classifier
    /\ UNCHANGED <<tool, argvseq, keyst, keylen, twst, twlen, nfiles, flen, outlen>>

Process ==
    /\ phase = "classified" /\ verdict = "Run" /\ phase' = "done"
    /\ \E n \in 0..MaxLen : flen' = n /\ outlen' = Loop(n, 0)
    /\ UNCHANGED <<tool, argvseq, keyst, keylen, twst, twlen, nfiles, verdict>>

Next == Classify \/ Process
Spec == Init /\ [][Next]_vars

ClassifierLaw == phase # "start" => (verdict = "Run") = Documented
ChunkLaw == phase = "done" => outlen = IF tool = "ctr" THEN flen ELSE flen - (flen % BSZ)
=============================================================================
