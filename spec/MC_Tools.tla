------------------------------ MODULE MC_Tools ------------------------------
(***************************************************************************)
(* Design-level model of the example tools (C20):                          *)
(* (1) the option classifier of examples/options.c over abstract argv --   *)
(*     Run iff every documented condition holds;                           *)
(* (2) the chunked read/process/write loops: processing a file in chunks   *)
(*     of CHUNK bytes equals processing it whole -- same length for the    *)
(*     stream tool, all whole blocks (tail dropped) for the block tools -- *)
(*     which holds because CHUNK is a multiple of the block size; a chunk  *)
(*     size that is not (negative config) must fail.                       *)
(***************************************************************************)
EXTENDS Naturals, Sequences, TLC

CONSTANTS CHUNK, BSZ, MaxLen

VARIABLES phase, tool, bsopt, keyst, keylen, twst, twlen, nfiles, flen, verdict, outlen
vars == <<phase, tool, bsopt, keyst, keylen, twst, twlen, nfiles, flen, verdict, outlen>>

Tools == {"ctr", "tweak", "ecb"}
BsOpts == {"none", "64", "128", "bad"}
HexSt == {"absent", "ok", "nonhex", "empty"}

BlockOf(b) == IF b = "64" THEN 8 ELSE 16

(* documented conditions *)
Documented ==
    /\ bsopt # "bad"
    /\ keyst = "ok"
    /\ twst \in {"absent", "ok"}
    /\ nfiles >= 2
    /\ LET bs == BlockOf(bsopt)
           maxk == IF tool = "tweak" THEN 2 * bs ELSE 3 * bs
       IN  keylen >= bs /\ keylen <= maxk /\ (twst = "ok" => twlen <= bs)

(* parse_options as the code performs it (getopt order abstracted away) *)
Classifier ==
    IF bsopt = "bad" THEN "Exit1"
    ELSE IF keyst \in {"nonhex", "empty"} THEN "Exit1"       \* parse_hex returns 0
    ELSE IF twst \in {"nonhex", "empty"} THEN "Exit1"
    ELSE IF nfiles < 2 THEN "Exit1"
    ELSE IF keyst = "absent" THEN "Exit1"
    ELSE LET bs == BlockOf(bsopt)
         IN  IF tool = "tweak" /\ (keylen < bs \/ keylen > 2 * bs) THEN "Exit1"
             ELSE IF tool # "tweak" /\ (keylen < bs \/ keylen > 3 * bs) THEN "Exit1"
             ELSE IF twst = "ok" /\ twlen > bs THEN "Exit1"
             ELSE "Run"

(* chunk loop: returns number of bytes written *)
RECURSIVE Loop(_, _)
Loop(left, written) ==
    IF left = 0 THEN written
    ELSE LET rd == IF left >= CHUNK THEN CHUNK ELSE left
             wr == IF tool = "ctr" THEN rd ELSE rd - (rd % BSZ)
         IN  Loop(left - rd, written + wr)

Init ==
    /\ phase = "start" /\ tool \in Tools /\ bsopt \in BsOpts /\ keyst \in HexSt
    /\ keylen \in {0, 7, 8, 15, 16, 17, 24, 25, 32, 33, 48} /\ twst \in HexSt /\ twlen \in {1, 8, 9, 16}
    /\ nfiles \in 0..2 /\ flen \in {0} /\ verdict = "none" /\ outlen = 0

Classify ==
    /\ phase = "start" /\ phase' = "classified"
    /\ verdict' = Classifier
    /\ UNCHANGED <<tool, bsopt, keyst, keylen, twst, twlen, nfiles, flen, outlen>>

Process ==
    /\ phase = "classified" /\ verdict = "Run" /\ phase' = "done"
    /\ \E n \in 0..MaxLen : flen' = n /\ outlen' = Loop(n, 0)
    /\ UNCHANGED <<tool, bsopt, keyst, keylen, twst, twlen, nfiles, verdict>>

Next == Classify \/ Process
Spec == Init /\ [][Next]_vars

ClassifierLaw == phase # "start" => (verdict = "Run") = Documented
ChunkLaw == phase = "done" => outlen = IF tool = "ctr" THEN flen ELSE flen - (flen % BSZ)
=============================================================================
