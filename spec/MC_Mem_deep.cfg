SPECIFICATION Spec
CONSTANTS
  N = 24
  BSZ = 4
  Variant = "loadall"
  MaxBlocks = 4
INVARIANT BufferContract
CHECK_DEADLOCK FALSE
